#!/bin/bash
# usage: tools/verify_seed.sh <dir with patch.diff demo.cpp> -> prints a JSON line with what was confirmed
# Confirms in a scratch worktree (outside /repo and /verif): patch applies, suite passes with it,
# demo exits 0 without the change and non-zero with it.  The worktree is removed afterwards.
d=$1; id=$(basename $d); w=/tmp/vs_$id
git -C /repo worktree remove --force $w >/dev/null 2>&1; rm -rf $w
git -C /repo worktree add --detach $w HEAD >/dev/null 2>&1 || { echo "{\"id\":\"$id\",\"error\":\"worktree\"}"; exit 1; }
extra=""; [ -f $d/demo_flags.txt ] && extra=$(cat $d/demo_flags.txt)
g++ -std=c++17 -O1 -I$w/include $extra $d/demo.cpp -o $w/demo_clean -pthread >/dev/null 2>$w/demo_clean.err; cc_clean=$?
clean_rc=-1; [ $cc_clean = 0 ] && { timeout 600 $w/demo_clean >/dev/null 2>&1; clean_rc=$?; }
git -C $w apply $d/patch.diff; ap=$?
( cd $w && cmake -G Ninja -B _build -DFS_BUILD_TESTS=ON -DCMAKE_BUILD_TYPE=RelWithDebInfo -DCMAKE_CXX_FLAGS=-Wno-error -DGTest_DIR=/root/miniconda/lib/cmake/GTest >/dev/null 2>&1 && cmake --build _build >/dev/null 2>&1 ); build=$?
tests=$(cd $w && ctest --test-dir _build -j8 --timeout 900 2>&1 | grep -E "tests passed|tests failed" | tail -1)
g++ -std=c++17 -O1 -I$w/include $extra $d/demo.cpp -o $w/demo_seeded -pthread >/dev/null 2>&1; cc_seed=$?
seed_rc=-1; msg=""; [ $cc_seed = 0 ] && { msg=$(timeout 600 $w/demo_seeded 2>&1 >/dev/null | head -1 | tr '"' "'" | cut -c1-200); timeout 600 $w/demo_seeded >/dev/null 2>&1; seed_rc=$?; }
git -C /repo worktree remove --force $w >/dev/null 2>&1; rm -rf $w
echo "{\"id\":\"$id\",\"patch_applies\":$([ $ap = 0 ] && echo true || echo false),\"suite_builds\":$([ $build = 0 ] && echo true || echo false),\"suite\":\"$tests\",\"demo_exit_unchanged\":$clean_rc,\"demo_exit_seeded\":$seed_rc,\"demo_message\":\"$msg\"}"
