#!/usr/bin/env python3
"""Assemble /verif/seeded/<id>/ from /tmp/seedstage/<id>/ (patch, demo, notes) + verification + detection records."""
import json, os, shutil, sys
det = json.load(open('/verif/tools/seed_detection.json'))
ver = {}
for l in open('/tmp/seedstage/results.jsonl'):
    l = l.strip()
    if l.startswith('{'):
        try:
            r = json.loads(l)
            ver[r['id']] = r
        except Exception:
            pass
for sid, d in det.items():
    if os.path.exists(f'/verif/seeded/{sid}/meta.json') and not os.path.exists(f'/tmp/seedstage/{sid}/patch.diff'):
        continue
    v = ver.get(sid)
    if not v or not v.get('patch_applies') or 'tests passed, 0 tests failed out of 153' not in v.get('suite', '') \
            or v.get('demo_exit_unchanged') != 0 or v.get('demo_exit_seeded') in (0, -1):
        print('SKIP (not confirmed):', sid, v)
        continue
    dst = f'/verif/seeded/{sid}'
    os.makedirs(dst, exist_ok=True)
    for f in ('patch.diff', 'demo.cpp', 'notes.md', 'demo_flags.txt'):
        src = f'/tmp/seedstage/{sid}/{f}'
        if os.path.exists(src):
            shutil.copy(src, dst)
    meta = {
        'seed': sid, 'breaks_property': d['property'],
        'author': 'independent sub-agent given only the property text and a scratch worktree',
        'needs_to_manifest': d['needs'],
        'confirmed_in_scratch_worktree': {
            'patch_applies_to': 'HEAD of /repo (with the fix: commits)',
            'existing_suite_with_change': v['suite'],
            'demo_exit_status_unchanged_tree': v['demo_exit_unchanged'],
            'demo_exit_status_changed_tree': v['demo_exit_seeded'],
            'demo_message': v.get('demo_message', ''),
            'how': 'tools/verify_seed.sh (git worktree under /tmp, cmake+ctest, g++ demo.cpp; worktree removed afterwards)'},
        'checks_run': 'tools/try_seed.sh patch.diff quick <Cxx> (git -C /repo apply; ./check; git -C /repo checkout -- .)',
        'detected_by': d['caught_by'], 'superseded_by_fix': d.get('superseded_by_fix', ''), 'first_attempt': d['first_attempt'], 'shortest_witness': d.get('witness', ''),
    }
    if d.get('superseded_by_fix'):
        meta['confirmed_in_scratch_worktree']['patch_applies_to'] = (
            'the tree before fix %s; on %s and later the demo exits 0 with the change applied (re-verified), '
            'i.e. the change no longer breaks the property' % (d['superseded_by_fix'], d['superseded_by_fix']))
    json.dump(meta, open(f'{dst}/meta.json', 'w'), indent=1)
    print('saved', sid)
