#!/bin/bash
# usage: tools/new_seed.sh <ID> <Cxx> ["additional constraint text"]
# Creates a scratch worktree /tmp/seed/<ID> of /repo HEAD, an output dir, and prints the prompt
# for an independent sub-agent (property text only, nothing from /verif).
id=$1; prop=$2; extra=$3
mkdir -p /tmp/seed
git -C /repo worktree remove --force /tmp/seed/$id >/dev/null 2>&1; rm -rf /tmp/seed/$id /tmp/seed/${id}_out
git -C /repo worktree add --detach /tmp/seed/$id HEAD >/dev/null 2>&1 || { echo "worktree failed"; exit 1; }
mkdir -p /tmp/seed/${id}_out
grep "\"id\": *\"$prop\"" /verif/properties.jsonl > /tmp/seed/${id}_out/property.json
python3 - "$id" "$extra" <<'PY'
import sys
id, extra = sys.argv[1], sys.argv[2]
t = open('/verif/tools/seed_prompt.txt').read()
p = open('/tmp/seed/%s_out/property.json' % id).read().strip()
t = t.replace('@ID@', id).replace('@PROPERTY@', p)
if extra:
    t = t.replace('DELIVERABLES in', 'ADDITIONAL CONSTRAINT: ' + extra + '\n\nDELIVERABLES in', 1)
open('/tmp/seed/%s_out/prompt.txt' % id, 'w').write(t)
PY
echo /tmp/seed/${id}_out/prompt.txt
