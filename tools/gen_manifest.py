#!/usr/bin/env python3
"""Regenerate MANIFEST.json from engine/registry.py (claimed checks) + NOT_APPLICABLE below."""
import json, os, sys
ROOT = os.path.dirname(os.path.dirname(os.path.abspath(__file__)))
sys.path.insert(0, os.path.join(ROOT, "engine"))
from registry import PROPERTIES  # noqa: E402

NOT_BUILT = "check not built yet in this round (planned within the model-checking family, DESIGN.md section 5)"
props = [json.loads(l) for l in open(os.path.join(ROOT, "properties.jsonl"))]
checks, na = [], []
for p in props:
    pid = p["id"]
    if pid in PROPERTIES:
        sp = PROPERTIES[pid]
        checks.append({
            "property_id": pid,
            "quick_cmd": "./check %s --tier quick" % pid,
            "thorough_cmd": "./check %s --tier thorough" % pid,
            "evidence_file": "evidence/%s.json" % pid,
            "replay_cmd_template": "./check %s --replay {path}" % pid,
            "engine": sp.get("engine", "sse"),
            "level_claimed": {"category": "model_checking", "text": sp["level_text"],
                              "design_ref": "DESIGN.md section 5, " + pid},
            "level_note": sp["level_note"],
            "technique": sp["technique"],
        })
    else:
        na.append({"property_id": pid, "reason": NOT_BUILT})
engines = {}
for pid, sp in PROPERTIES.items():
    engines.setdefault(sp.get("engine", "sse"), []).append(pid)
eng_desc = {
    "sse": ("engine/sse", "small-scope exhaustive enumerator over worlds / call histories / operator programs, "
            "run on the real headers with reference-model oracles"),
    "mcsched": ("engine/mcsched", "controlled cooperative scheduler over shimmed std synchronisation types, "
                "preemption-bounded exhaustive schedule exploration of the real thread_pool, happens-before race detector"),
}
m = {
    "version": 1,
    "setup_cmd": "./check --build-all",
    "hooks": {
        "guard": "FASTSCAPELIB_VERIF",
        "enable": "no source hooks are needed: harnesses include the unmodified headers of /repo; the scheduler "
                  "harness substitutes the std synchronisation types by macro around the #include",
        "baseline_off_cmd": "cmake --build /repo/_build && ctest --test-dir /repo/_build -j8 --timeout 900",
        "source_commits": [],
        "add_only": True,
    },
    "engines": [{"name": k, "path": eng_desc[k][0], "serves_properties": sorted(v), "kind_free_text": eng_desc[k][1]}
                for k, v in sorted(engines.items())],
    "checks": checks,
    "not_applicable": na,
    "notes": "Approach, bounds, findings and detection results: DESIGN.md. Known findings: known_findings.json.",
}
json.dump(m, open(os.path.join(ROOT, "MANIFEST.json"), "w"), indent=1)
print("claimed:", [c["property_id"] for c in checks], "not claimed:", [n["property_id"] for n in na])
