#!/bin/bash
# usage: tools/try_seed.sh <patch.diff> <tier> <Cxx> [<Cxx> ...]
# Applies a seeded change to /repo, runs the listed checks, and always reverts /repo.
patch=$1; tier=$2; shift 2
cd /verif
if ! git -C /repo diff --quiet; then echo "/repo has uncommitted changes"; exit 3; fi
git -C /repo apply "$patch" || { echo "patch does not apply"; exit 3; }
trap 'git -C /repo checkout -- . ' EXIT
for p in "$@"; do
  out=$(./check $p --tier $tier 2>&1); rc=$?
  echo "== $p exit=$rc"
  echo "$out" | grep -E "VIOLATION|signature:|first case|observed:|KNOWN-FINDING|^\[check\] C" | cut -c1-400
done
