#!/bin/bash
# usage: tools/try_seed.sh <patch.diff> <tier> <Cxx> [<Cxx> ...]
# Applies a seeded change to a scratch worktree of /repo HEAD (outside /repo and /verif), runs
# the listed checks against it (VERIF_REPO), and removes the worktree.  /repo itself is not touched,
# so checks of the unchanged tree can run at the same time.
patch=$(readlink -f $1); tier=$2; shift 2
cd /verif
w=/tmp/seedrepo_$$
git -C /repo worktree add --detach $w HEAD >/dev/null 2>&1 || { echo "worktree failed"; exit 3; }
trap 'git -C /repo worktree remove --force '$w' >/dev/null 2>&1; rm -rf '$w EXIT
git -C $w apply "$patch" || { echo "patch does not apply"; exit 3; }
for p in "$@"; do
  out=$(VERIF_REPO=$w ./check $p --tier $tier 2>&1); rc=$?
  echo "== $p exit=$rc"
  echo "$out" | grep -E "VIOLATION|signature:|first case|observed:|KNOWN-FINDING|^\[check\] C|BUILD FAILED|died|error" | cut -c1-400
done
