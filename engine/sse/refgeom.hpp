// Grid specifications, their text codec, and the *reference* geometry written directly
// from the documentation (independent of the library's offset/code tables).
#pragma once
#include "common.hpp"

namespace sse
{
    enum Status
    {
        CORE = 0,
        FIXED_VALUE = 1,
        FIXED_GRADIENT = 2,
        LOOPED = 3
    };
    inline char status_char(int s)
    {
        return "CVGL"[s & 3];
    }
    inline int status_from_char(char c)
    {
        switch (c)
        {
            case 'C':
                return CORE;
            case 'V':
                return FIXED_VALUE;
            case 'G':
                return FIXED_GRADIENT;
            case 'L':
                return LOOPED;
        }
        return -1;
    }

    enum Kind
    {
        PROFILE = 0,
        RASTER = 1,
        TRIMESH = 2
    };
    enum Connect
    {
        ROOK = 0,
        QUEEN = 1,
        BISHOP = 2
    };

    struct GridSpec
    {
        int kind = RASTER;
        int rc = QUEEN;
        bool cache = true;
        int nr = 1, nc = 3;        // profile: nr = 1, nc = size
        double sr = 1.0, sc = 1.0;  // spacing rows (dy), cols (dx); profile uses sc
        int b[4] = { FIXED_VALUE, FIXED_VALUE, FIXED_VALUE, FIXED_VALUE };  // left right top bottom
        std::vector<std::pair<int, int>> overrides;  // (flat index, status)
        // trimesh: 3x3 lattice, 4 cells, cell kinds 0..6, jitter id, vertex order id,
        // status mode: 0 = default (empty map), 1 = explicit array (border fixed value),
        // 2 = explicit map with one interior fixed value node
        int cells[4] = { 1, 1, 1, 1 };
        int jitter = 0;
        int vorder = 0;
        int smode = 0;

        int size() const
        {
            return kind == TRIMESH ? 9 : nr * nc;
        }
        std::string family() const
        {
            if (kind == PROFILE)
                return "profile";
            if (kind == TRIMESH)
                return "trimesh";
            return rc == ROOK ? "rook" : rc == QUEEN ? "queen" : "bishop";
        }
        std::string str() const
        {
            std::ostringstream o;
            if (kind == PROFILE)
                o << "P," << nc << "," << hexd(sc) << "," << status_char(b[0]) << status_char(b[1])
                  << ",c" << (cache ? 1 : 0);
            else if (kind == RASTER)
                o << "R," << (rc == ROOK ? "rook" : rc == QUEEN ? "queen" : "bishop") << "," << nr
                  << "x" << nc << "," << hexd(sr) << ":" << hexd(sc) << "," << status_char(b[0])
                  << status_char(b[1]) << status_char(b[2]) << status_char(b[3]) << ",c"
                  << (cache ? 1 : 0);
            else
                o << "T," << cells[0] << cells[1] << cells[2] << cells[3] << ",j" << jitter << ",v"
                  << vorder << ",s" << smode;
            if (!overrides.empty())
            {
                o << ",ov";
                for (auto& p : overrides)
                    o << ":" << p.first << status_char(p.second);
            }
            return o.str();
        }
        static GridSpec parse(const std::string& s)
        {
            GridSpec g;
            auto p = split(s, ',');
            std::size_t k = 0;
            if (p[0] == "P")
            {
                g.kind = PROFILE;
                g.nr = 1;
                g.nc = std::atoi(p[1].c_str());
                g.sc = unhexd(p[2]);
                g.sr = 1.0;
                g.b[0] = status_from_char(p[3][0]);
                g.b[1] = status_from_char(p[3][1]);
                g.cache = p[4] == "c1";
                k = 5;
            }
            else if (p[0] == "R")
            {
                g.kind = RASTER;
                g.rc = p[1] == "rook" ? ROOK : p[1] == "queen" ? QUEEN : BISHOP;
                auto sh = split(p[2], 'x');
                g.nr = std::atoi(sh[0].c_str());
                g.nc = std::atoi(sh[1].c_str());
                auto sp = split(p[3], ':');
                g.sr = unhexd(sp[0]);
                g.sc = unhexd(sp[1]);
                for (int i = 0; i < 4; ++i)
                    g.b[i] = status_from_char(p[4][static_cast<std::size_t>(i)]);
                g.cache = p[5] == "c1";
                k = 6;
            }
            else
            {
                g.kind = TRIMESH;
                for (int i = 0; i < 4; ++i)
                    g.cells[i] = p[1][static_cast<std::size_t>(i)] - '0';
                g.jitter = std::atoi(p[2].c_str() + 1);
                g.vorder = std::atoi(p[3].c_str() + 1);
                g.smode = std::atoi(p[4].c_str() + 1);
                g.cache = false;
                k = 5;
            }
            if (k < p.size() && p[k].rfind("ov", 0) == 0)
            {
                auto ov = split(p[k], ':');
                for (std::size_t i = 1; i < ov.size(); ++i)
                {
                    int idx = std::atoi(ov[i].c_str());
                    int st = status_from_char(ov[i].back());
                    g.overrides.push_back({ idx, st });
                }
            }
            return g;
        }
        // admissible = construction must succeed according to the documentation
        bool borders_admissible() const
        {
            if (kind == PROFILE)
                return (b[0] == LOOPED) == (b[1] == LOOPED);
            if (kind == RASTER)
                return (b[0] == LOOPED) == (b[1] == LOOPED) && (b[2] == LOOPED) == (b[3] == LOOPED);
            return true;
        }
    };

    // ------------------------------------------------------------------ triangular meshes
    // Points: 3x3 lattice, index = 3*row + col, x = col, y = row (plus jitter).
    struct MeshData
    {
        std::vector<std::array<double, 2>> points;
        std::vector<std::array<int, 3>> triangles;
    };
    inline MeshData make_mesh(const GridSpec& g)
    {
        MeshData m;
        static const double jit[4][9][2] = {
            { { 0, 0 }, { 0, 0 }, { 0, 0 }, { 0, 0 }, { 0, 0 }, { 0, 0 }, { 0, 0 }, { 0, 0 }, { 0, 0 } },
            // mild irregularity
            { { 0, 0 }, { 0.1, -0.05 }, { 0, 0 }, { -0.05, 0.1 }, { 0.2, 0.15 }, { 0.05, 0 }, { 0, 0 }, { -0.1, 0.05 }, { 0, 0 } },
            // centre pushed towards a corner: obtuse triangles
            { { 0, 0 }, { 0, 0 }, { 0, 0 }, { 0, 0 }, { -0.6, -0.6 }, { 0, 0 }, { 0, 0 }, { 0, 0 }, { 0, 0 } },
            // near-degenerate slivers and anisotropic stretch
            { { 0, 0 }, { 0, 0.45 }, { 0.5, 0 }, { 0.45, 0 }, { 0.3, 0.3 }, { 0.5, -0.2 }, { 0, 0.5 }, { -0.2, 0.5 }, { 0.7, 0.7 } },
        };
        for (int r = 0; r < 3; ++r)
            for (int c = 0; c < 3; ++c)
            {
                int i = 3 * r + c;
                m.points.push_back({ c + jit[g.jitter & 3][i][0], r + jit[g.jitter & 3][i][1] });
            }
        static const int perm[6][3]
            = { { 0, 1, 2 }, { 1, 2, 0 }, { 2, 0, 1 }, { 0, 2, 1 }, { 2, 1, 0 }, { 1, 0, 2 } };
        auto add = [&](int a, int b, int c)
        {
            int v[3] = { a, b, c };
            // vorder 0..5: the same permutation for every triangle (0-2 keep the winding, 3-5
            // reverse it); 6..17: mixed winding - the permutation changes from triangle to
            // triangle and its parity alternates (6..11: every other triangle reversed,
            // 12..17: pairs of triangles reversed), so adjacent triangles list their common
            // edge in the same direction
            const int t = static_cast<int>(m.triangles.size());
            const int pi = g.vorder < 6 ? g.vorder : (g.vorder + 3 * ((t >> (g.vorder / 6 - 1)) & 1) + t) % 6;
            const int* pm = perm[pi % 6];
            m.triangles.push_back({ v[pm[0]], v[pm[1]], v[pm[2]] });
        };
        for (int cr = 0; cr < 2; ++cr)
            for (int cc = 0; cc < 2; ++cc)
            {
                int kind = g.cells[2 * cr + cc];
                int p00 = 3 * cr + cc, p01 = p00 + 1, p10 = p00 + 3, p11 = p00 + 4;
                switch (kind)
                {
                    case 0:
                        break;
                    case 1:  // split along p00-p11
                        add(p00, p01, p11);
                        add(p00, p11, p10);
                        break;
                    case 2:  // split along p01-p10
                        add(p00, p01, p10);
                        add(p01, p11, p10);
                        break;
                    case 3:
                        add(p00, p01, p11);
                        break;
                    case 4:
                        add(p00, p11, p10);
                        break;
                    case 5:
                        add(p00, p01, p10);
                        break;
                    case 6:
                        add(p01, p11, p10);
                        break;
                }
            }
        return m;
    }

    // ------------------------------------------------------------------ reference geometry
    struct RefNeighbor
    {
        int idx;
        double dist;
    };
    struct RefGeom
    {
        int n = 0;
        std::vector<std::vector<RefNeighbor>> nb;  // multiset semantics (duplicates kept)
        std::vector<int> status;
        std::vector<double> area;
        bool constructible = true;  // false: the documented rules say construction must throw
    };

    inline int precedence(int s)
    {
        // fixed value > fixed gradient > looped > core
        return s == FIXED_VALUE ? 3 : s == FIXED_GRADIENT ? 2 : s == LOOPED ? 1 : 0;
    }

    inline RefGeom ref_geometry(const GridSpec& g)
    {
        RefGeom r;
        r.n = g.size();
        r.nb.assign(static_cast<std::size_t>(r.n), {});
        r.status.assign(static_cast<std::size_t>(r.n), CORE);
        r.area.assign(static_cast<std::size_t>(r.n), 0.0);
        if (g.kind == PROFILE)
        {
            int n = g.nc;
            r.constructible = g.borders_admissible();
            r.status[0] = g.b[0];
            r.status[static_cast<std::size_t>(n - 1)] = g.b[1];
            bool loop = g.b[0] == LOOPED && g.b[1] == LOOPED;
            for (int i = 0; i < n; ++i)
            {
                r.area[static_cast<std::size_t>(i)] = g.sc;
                for (int d : { -1, 1 })
                {
                    int j = i + d;
                    if (j < 0 || j >= n)
                    {
                        if (!loop)
                            continue;
                        j = (j + n) % n;
                    }
                    r.nb[static_cast<std::size_t>(i)].push_back({ j, g.sc });
                }
            }
        }
        else if (g.kind == RASTER)
        {
            int nr = g.nr, nc = g.nc;
            r.constructible = g.borders_admissible();
            auto at = [&](int row, int col) -> int& { return r.status[static_cast<std::size_t>(row * nc + col)]; };
            // borders then corners by precedence
            for (int row = 0; row < nr; ++row)
                for (int col = 0; col < nc; ++col)
                {
                    int s = CORE;
                    bool any = false;
                    auto take = [&](int bs)
                    {
                        if (!any || precedence(bs) > precedence(s))
                            s = bs;
                        any = true;
                    };
                    if (col == 0)
                        take(g.b[0]);
                    if (col == nc - 1)
                        take(g.b[1]);
                    if (row == 0)
                        take(g.b[2]);
                    if (row == nr - 1)
                        take(g.b[3]);
                    at(row, col) = any ? s : CORE;
                }
            bool vloop = g.b[2] == LOOPED && g.b[3] == LOOPED;  // rows wrap (top/bottom)
            bool hloop = g.b[0] == LOOPED && g.b[1] == LOOPED;  // cols wrap (left/right)
            for (int row = 0; row < nr; ++row)
                for (int col = 0; col < nc; ++col)
                {
                    int i = row * nc + col;
                    r.area[static_cast<std::size_t>(i)] = g.sr * g.sc;
                    for (int dr = -1; dr <= 1; ++dr)
                        for (int dc = -1; dc <= 1; ++dc)
                        {
                            if (dr == 0 && dc == 0)
                                continue;
                            bool diag = dr != 0 && dc != 0;
                            if (g.rc == ROOK && diag)
                                continue;
                            if (g.rc == BISHOP && !diag)
                                continue;
                            int rr = row + dr, cc = col + dc;
                            if (rr < 0 || rr >= nr)
                            {
                                if (!vloop)
                                    continue;
                                rr = (rr + nr) % nr;
                            }
                            if (cc < 0 || cc >= nc)
                            {
                                if (!hloop)
                                    continue;
                                cc = (cc + nc) % nc;
                            }
                            double dy = dr != 0 ? g.sr : 0.0, dx = dc != 0 ? g.sc : 0.0;
                            r.nb[static_cast<std::size_t>(i)].push_back(
                                { rr * nc + cc, std::sqrt(dy * dy + dx * dx) });
                        }
                }
        }
        else
        {
            MeshData m = make_mesh(g);
            std::set<std::pair<int, int>> edges;
            std::map<std::pair<int, int>, int> cnt;
            for (auto& t : m.triangles)
                for (int e = 0; e < 3; ++e)
                {
                    int a = t[static_cast<std::size_t>(e)], b = t[static_cast<std::size_t>((e + 1) % 3)];
                    auto key = std::make_pair(std::min(a, b), std::max(a, b));
                    edges.insert(key);
                    ++cnt[key];
                }
            for (auto& e : edges)
            {
                double dx = m.points[static_cast<std::size_t>(e.first)][0] - m.points[static_cast<std::size_t>(e.second)][0];
                double dy = m.points[static_cast<std::size_t>(e.first)][1] - m.points[static_cast<std::size_t>(e.second)][1];
                double d = std::sqrt(dx * dx + dy * dy);
                r.nb[static_cast<std::size_t>(e.first)].push_back({ e.second, d });
                r.nb[static_cast<std::size_t>(e.second)].push_back({ e.first, d });
            }
            std::vector<int> boundary(9, 0);
            for (auto& kv : cnt)
                if (kv.second == 1)
                {
                    boundary[static_cast<std::size_t>(kv.first.first)] = 1;
                    boundary[static_cast<std::size_t>(kv.first.second)] = 1;
                }
            if (g.smode == 0)
            {
                for (int i = 0; i < 9; ++i)
                    r.status[static_cast<std::size_t>(i)] = boundary[static_cast<std::size_t>(i)] ? FIXED_VALUE : CORE;
            }
            else if (g.smode == 1)
            {
                // explicit array: lattice border fixed value, centre core
                for (int i = 0; i < 9; ++i)
                    r.status[static_cast<std::size_t>(i)] = (i == 4) ? CORE : FIXED_VALUE;
            }
            else
            {
                // explicit map: node 0 fixed value, node 4 fixed gradient, others core
                r.status[0] = FIXED_VALUE;
                r.status[4] = FIXED_GRADIENT;
                if (g.smode >= 3)
                    r.constructible = false;  // looped entry (3) / out-of-range key (4)
            }
            // areas: filled by the mesh harness (C18) with its own model; flow harnesses use
            // the library's nodes_areas (bound to this model by C18).
        }
        // per-node overrides (structured grids): looped never allowed as/over an override
        // raster override keys >= 100000 encode a raw (row, col) pair: 100000 + row * 100 + col
        // (a column beyond the row length must be rejected even when row * ncols + col is a
        // valid flat index)
        std::vector<std::pair<int, int>> ovs;
        for (auto ov : g.overrides)
        {
            if (g.kind == RASTER && ov.first >= 100000)
            {
                int row = (ov.first - 100000) / 100, col = (ov.first - 100000) % 100;
                ov.first = (row < g.nr && col < g.nc) ? row * g.nc + col : -1;
            }
            ovs.push_back(ov);
        }
        for (auto& ov : ovs)
        {
            if (ov.first < 0 || ov.first >= r.n || ov.second == LOOPED
                || r.status[static_cast<std::size_t>(ov.first)] == LOOPED)
            {
                r.constructible = false;
                continue;
            }
        }
        if (r.constructible && g.kind != TRIMESH)
            for (auto& ov : ovs)
                r.status[static_cast<std::size_t>(ov.first)] = ov.second;
        return r;
    }
}
