// Flow-graph construction from run-time operator programs + extraction of the complete
// observable graph state into plain vectors (so that oracles are ordinary C++).
#pragma once
#include "lib.hpp"

#include "fastscapelib/flow/flow_graph.hpp"
#include "fastscapelib/flow/flow_router.hpp"
#include "fastscapelib/flow/sink_resolver.hpp"
#include "fastscapelib/flow/flow_snapshot.hpp"

namespace sse
{
    // ------------------------------------------------------------------ programs
    // op names: single, single2 (2 threads requested), multi, pflood, mst:<k|b>:<b|c>,
    //           gsnap:<name>, esnap:<name>
    struct Program
    {
        std::vector<std::string> ops;
        std::string str() const
        {
            std::string s;
            for (std::size_t i = 0; i < ops.size(); ++i)
                s += (i ? "+" : "") + ops[i];
            return s;
        }
        static Program parse(const std::string& s)
        {
            Program p;
            if (!s.empty())
                p.ops = split(s, '+');
            return p;
        }
        bool has(const std::string& prefix) const
        {
            for (auto& o : ops)
                if (o.rfind(prefix, 0) == 0)
                    return true;
            return false;
        }
        bool has_resolver() const
        {
            return has("pflood") || has("mst");
        }
        // direction of the final state (per the documentation): last router / mst
        bool final_single() const
        {
            bool single = true;
            for (auto& o : ops)
            {
                if (o.rfind("single", 0) == 0 || o.rfind("mst", 0) == 0)
                    single = true;
                else if (o == "multi")
                    single = false;
            }
            return single;
        }
    };

    template <class G>
    struct Built
    {
        using FG = fs::flow_graph<G>;
        using impl_t = typename FG::impl_type;
        std::unique_ptr<FG> fg;
        std::vector<std::shared_ptr<fs::multi_flow_router>> multis;
        std::vector<std::shared_ptr<fs::mst_sink_resolver>> msts;
        std::vector<std::shared_ptr<fs::single_flow_router>> singles;
    };

    // Build through the same private add_operator(shared_ptr<OP>) that the variadic
    // constructor and the Python bindings use (needs -fno-access-control).
    template <class G>
    Built<G> build_graph(G& grid, const Program& prog, double slope_exp = 1.0)
    {
        Built<G> b;
        typename Built<G>::FG::operators_type seq;
        for (auto& o : prog.ops)
        {
            if (o == "single")
            {
                auto p = std::make_shared<fs::single_flow_router>();
                b.singles.push_back(p);
                seq.add_operator(p);
            }
            else if (o.rfind("single", 0) == 0)
            {
                auto p = std::make_shared<fs::single_flow_router>(std::atoi(o.c_str() + 6));
                b.singles.push_back(p);
                seq.add_operator(p);
            }
            else if (o == "multi")
            {
                auto p = std::make_shared<fs::multi_flow_router>(slope_exp);
                b.multis.push_back(p);
                seq.add_operator(p);
            }
            else if (o == "pflood")
                seq.add_operator(std::make_shared<fs::pflood_sink_resolver>());
            else if (o.rfind("mst", 0) == 0)
            {
                auto parts = split(o, ':');
                auto bm = (parts.size() > 1 && parts[1] == "b") ? fs::mst_method::boruvka
                                                                 : fs::mst_method::kruskal;
                auto rm = (parts.size() > 2 && parts[2] == "b") ? fs::mst_route_method::basic
                                                                 : fs::mst_route_method::carve;
                auto p = std::make_shared<fs::mst_sink_resolver>(bm, rm);
                b.msts.push_back(p);
                seq.add_operator(p);
            }
            else if (o.rfind("gsnap", 0) == 0)
                seq.add_operator(std::make_shared<fs::flow_snapshot>(o, true, false));
            else if (o.rfind("esnap", 0) == 0)
                seq.add_operator(std::make_shared<fs::flow_snapshot>(o, false, true));
            else if (o.rfind("gesnap", 0) == 0)
                seq.add_operator(std::make_shared<fs::flow_snapshot>(o, true, true));
            else
                throw std::logic_error("unknown op " + o);
        }
        b.fg = std::make_unique<typename Built<G>::FG>(grid, std::move(seq));
        return b;
    }

    // Lower the private low-degree threshold of the Boruvka basin graph inside every
    // mst_sink_resolver of the sequence (the basin graph is created here, before the first
    // update, exactly as the first update would create it).  Same code, tiny graphs: this is
    // how the large-degree / edge-bucket path is reached on grids of <= 16 nodes.
    template <class G>
    bool set_boruvka_threshold(Built<G>& b, std::size_t thr)
    {
        using impl_t = typename Built<G>::impl_t;
        using facade_t = fs::detail::flow_operator_impl_facade<impl_t>;
        using wrap_t = typename facade_t::template flow_operator_impl_wrapper<fs::mst_sink_resolver>;
        bool any = false;
        for (auto& fac : b.fg->m_operators.m_op_impl_vec)
        {
            auto* w = dynamic_cast<wrap_t*>(fac.m_wrapper_ptr.get());
            if (!w)
                continue;
            auto& bg = w->m_op_impl.get_basin_graph(b.fg->impl());
            bg.m_max_low_degree = thr;
            any = true;
        }
        return any;
    }

    // ------------------------------------------------------------------ plain state
    struct GState
    {
        std::size_t n = 0, width = 0, dwidth = 0;
        std::vector<double> out;
        std::vector<std::size_t> rcount, dcount;
        std::vector<std::size_t> recv;    // n x width
        std::vector<double> rdist, rweight;
        std::vector<std::size_t> donors;  // n x dwidth
        std::vector<std::size_t> dfs, bfs, levels;
        bool shape_ok = true;

        std::size_t r(std::size_t i, std::size_t k) const
        {
            return recv[i * width + k];
        }
        double d(std::size_t i, std::size_t k) const
        {
            return rdist[i * width + k];
        }
        double w(std::size_t i, std::size_t k) const
        {
            return rweight[i * width + k];
        }
        std::size_t don(std::size_t i, std::size_t k) const
        {
            return donors[i * dwidth + k];
        }
        // receivers count clamped to the table width (oracles flag rcount > width)
        std::size_t rc(std::size_t i) const
        {
            return std::min(rcount[i], width);
        }
        std::size_t dc(std::size_t i) const
        {
            return std::min(dcount[i], dwidth);
        }
        // digest of everything observable; only the first rcount/dcount entries of a row
        // are part of the observable state (the rest is unspecified storage)
        u64 digest(bool with_orders = true) const
        {
            Hasher h;
            h.seq(out);
            h.seq(rcount);
            for (std::size_t i = 0; i < n; ++i)
                for (std::size_t k = 0; k < rc(i); ++k)
                {
                    h.pod(r(i, k));
                    h.pod(d(i, k));
                    h.pod(w(i, k));
                }
            if (with_orders)
            {
                h.seq(dcount);
                for (std::size_t i = 0; i < n; ++i)
                    for (std::size_t k = 0; k < dc(i); ++k)
                        h.pod(don(i, k));
                h.seq(dfs);
                h.seq(bfs);
                h.seq(levels);
            }
            return h.h;
        }
    };

    template <class IMPL, class A>
    GState extract_state(const IMPL& im, const A& out)
    {
        GState s;
        s.n = im.size();
        const auto& rec = im.receivers();
        s.width = rec.shape()[1];
        s.dwidth = im.donors().shape()[1];
        s.shape_ok = rec.shape()[0] == s.n && im.receivers_distance().shape()[0] == s.n
                     && im.receivers_distance().shape()[1] == s.width
                     && im.receivers_weight().shape()[1] == s.width
                     && im.receivers_count().size() == s.n && im.donors().shape()[0] == s.n
                     && im.donors_count().size() == s.n;
        s.out.resize(s.n);
        for (std::size_t i = 0; i < s.n; ++i)
            s.out[i] = out.flat(i);
        if (!s.shape_ok)
            return s;
        s.rcount.assign(im.receivers_count().begin(), im.receivers_count().end());
        s.dcount.assign(im.donors_count().begin(), im.donors_count().end());
        s.recv.assign(rec.begin(), rec.end());
        s.rdist.assign(im.receivers_distance().begin(), im.receivers_distance().end());
        s.rweight.assign(im.receivers_weight().begin(), im.receivers_weight().end());
        s.donors.assign(im.donors().begin(), im.donors().end());
        s.dfs.assign(im.dfs_indices().begin(), im.dfs_indices().end());
        s.bfs.assign(im.bfs_indices().begin(), im.bfs_indices().end());
        s.levels.assign(im.bfs_levels().begin(), im.bfs_levels().end());
        return s;
    }

    template <class G>
    typename fs::flow_graph<G>::data_array_type make_field(const G& grid, const std::vector<double>& v)
    {
        using arr_t = typename fs::flow_graph<G>::data_array_type;
        auto sh = grid.shape();
        std::vector<std::size_t> shape(sh.begin(), sh.end());
        arr_t a = arr_t::from_shape(shape);
        for (std::size_t i = 0; i < v.size(); ++i)
            a.flat(i) = v[i];
        return a;
    }

    template <class G>
    xt::xarray<bool> make_mask(const G& grid, const std::vector<int>& m)
    {
        auto sh = grid.shape();
        std::vector<std::size_t> shape(sh.begin(), sh.end());
        xt::xarray<bool> a = xt::xarray<bool>::from_shape(shape);
        for (std::size_t i = 0; i < m.size(); ++i)
            a.flat(i) = m[i] != 0;
        return a;
    }
}

// ---------------------------------------------------------------------- kernels
namespace sse
{
    // A realistic flow kernel: each node reads the current output value of its receivers
    // and writes its own slot (1 + max over receivers = number of links to the outlet).
    // Correct only when every receiver is processed before the node, i.e. it observes
    // the traversal order the graph hands to apply_kernel.
    struct KernelData
    {
        std::vector<double> out;
    };
    struct KernelNode
    {
        std::size_t idx = 0;
        double value = 0;
        double best = 0;
    };
    template <class FG>
    fs::detail::flow_kernel make_depth_kernel(FG& fg,
                                              fs::flow_graph_traversal_dir dir,
                                              int n_threads = 1,
                                              int min_block = 1,
                                              int min_level = 1)
    {
        fs::detail::flow_kernel k;
        const auto* impl = &fg.impl();
        k.func = [](void* nd) -> int
        {
            auto* n = static_cast<KernelNode*>(nd);
            n->value = 1.0 + n->best;
            return 0;
        };
        k.node_data_getter = [impl](std::size_t i, void* data, void* nd) -> int
        {
            auto* d = static_cast<KernelData*>(data);
            auto* n = static_cast<KernelNode*>(nd);
            n->idx = i;
            n->best = -1.0;
            for (std::size_t r = 0; r < impl->receivers_count()(i); ++r)
            {
                std::size_t rec = impl->receivers()(i, r);
                if (rec != i)
                    n->best = std::max(n->best, d->out[rec]);
            }
            return 0;
        };
        k.node_data_setter = [](std::size_t i, void* nd, void* data) -> int
        {
            static_cast<KernelData*>(data)->out[i] = static_cast<KernelNode*>(nd)->value;
            return 0;
        };
        k.node_data_create = []() -> void* { return new KernelNode(); };
        k.node_data_init = nullptr;
        k.node_data_free = [](void* nd) { delete static_cast<KernelNode*>(nd); };
        k.n_threads = n_threads;
        k.min_block_size = min_block;
        k.min_level_size = min_level;
        k.apply_dir = dir;
        return k;
    }

    template <class FG>
    std::vector<double> run_depth_kernel(FG& fg, fs::flow_graph_traversal_dir dir, int n_threads = 1, int min_block = 1, int min_level = 1)
    {
        auto k = make_depth_kernel(fg, dir, n_threads, min_block, min_level);
        KernelData kd;
        kd.out.assign(fg.size(), -5.0);
        fs::detail::flow_kernel_data fkd;
        fkd.data = &kd;
        fg.apply_kernel(k, fkd);
        return kd.out;
    }
}
