// Small-scope exhaustive enumeration engine (SSE): shared plumbing.
//
// A harness enumerates "worlds" in a canonical order.  Work is sharded over forked
// workers by world index; each worker fills a Report, writes it to a shard file and the
// parent merges the shard files into one JSON document that ./check turns into
// evidence.  Nothing in here is random.
#pragma once
#include <algorithm>
#include <chrono>
#include <cinttypes>
#include <cmath>
#include <csignal>
#include <cstdint>
#include <cstdio>
#include <cstdlib>
#include <cstring>
#include <fstream>
#include <functional>
#include <limits>
#include <map>
#include <set>
#include <sstream>
#include <string>
#include <vector>
#include <sys/wait.h>
#include <unistd.h>

namespace sse
{
    using u64 = std::uint64_t;

    // ------------------------------------------------------------------ hashing
    struct Hasher
    {
        u64 h = 1469598103934665603ull;
        void bytes(const void* p, std::size_t n)
        {
            const unsigned char* c = static_cast<const unsigned char*>(p);
            for (std::size_t i = 0; i < n; ++i)
            {
                h ^= c[i];
                h *= 1099511628211ull;
            }
        }
        template <class T>
        void pod(const T& v)
        {
            bytes(&v, sizeof(T));
        }
        void str(const std::string& s)
        {
            bytes(s.data(), s.size());
            pod(s.size());
        }
        template <class C>
        void seq(const C& c)
        {
            for (const auto& v : c)
                pod(v);
            u64 n = c.size();
            pod(n);
        }
    };

    // ------------------------------------------------------------------ text helpers
    inline std::string hexd(double v)
    {
        char b[64];
        std::snprintf(b, sizeof b, "%a", v);
        return b;
    }
    inline double unhexd(const std::string& s)
    {
        return std::strtod(s.c_str(), nullptr);
    }
    inline std::string jesc(const std::string& s)
    {
        std::string o;
        for (char c : s)
        {
            if (c == '"' || c == '\\')
            {
                o += '\\';
                o += c;
            }
            else if (c == '\n')
                o += "\\n";
            else if (c == '\t')
                o += "\\t";
            else if (static_cast<unsigned char>(c) < 0x20)
                o += ' ';
            else
                o += c;
        }
        return o;
    }
    inline std::vector<std::string> split(const std::string& s, char sep)
    {
        std::vector<std::string> out;
        std::string cur;
        for (char c : s)
        {
            if (c == sep)
            {
                out.push_back(cur);
                cur.clear();
            }
            else
                cur += c;
        }
        out.push_back(cur);
        return out;
    }
    // "k=v;k=v" -> map
    inline std::map<std::string, std::string> parse_kv(const std::string& s)
    {
        std::map<std::string, std::string> m;
        for (const auto& part : split(s, ';'))
        {
            auto p = part.find('=');
            if (p == std::string::npos)
                continue;
            m[part.substr(0, p)] = part.substr(p + 1);
        }
        return m;
    }

    // ------------------------------------------------------------------ arguments
    struct Args
    {
        std::string property;
        std::string tier = "quick";
        int jobs = 16;
        std::string out;
        std::string replay;   // world string: evaluate this single world only
        double deadline_s = 1e9;
        long seed = 0;
        std::string family;   // optional restriction (debugging)
        long stride = 0;      // C08 mode: visit every stride-th world (0 = tier default)
        bool thorough() const
        {
            return tier == "thorough";
        }
    };
    inline Args parse_args(int argc, char** argv)
    {
        Args a;
        for (int i = 1; i < argc; ++i)
        {
            std::string k = argv[i];
            auto next = [&]() -> std::string
            {
                if (i + 1 >= argc)
                {
                    std::fprintf(stderr, "missing value for %s\n", k.c_str());
                    std::exit(2);
                }
                return argv[++i];
            };
            if (k == "--property")
                a.property = next();
            else if (k == "--tier")
                a.tier = next();
            else if (k == "--jobs")
                a.jobs = std::atoi(next().c_str());
            else if (k == "--out")
                a.out = next();
            else if (k == "--replay-world")
                a.replay = next();
            else if (k == "--deadline")
                a.deadline_s = std::atof(next().c_str());
            else if (k == "--seed")
                a.seed = std::atol(next().c_str());
            else if (k == "--family")
                a.family = next();
            else if (k == "--stride")
                a.stride = std::atol(next().c_str());
            else
            {
                std::fprintf(stderr, "unknown argument %s\n", k.c_str());
                std::exit(2);
            }
        }
        if (a.jobs < 1)
            a.jobs = 1;
        return a;
    }

    // one oracle finding: signature suffix (without the property prefix) + free text
    struct Finding
    {
        std::string sig;
        std::string detail;
    };
    using Findings = std::vector<Finding>;

    // C08 mode (sanitized builds): functional oracles are muted, only sanitizer / crash
    // findings ("C08/...") are recorded
    inline bool& c08_mode()
    {
        static bool m = false;
        return m;
    }

    // ------------------------------------------------------------------ report
    struct Violation
    {
        std::string sig;
        u64 order = 0;  // enumeration index (smaller = simpler)
        std::string world;
        std::string detail;
    };

    struct Report
    {
        u64 worlds = 0;       // distinct worlds visited ("states")
        u64 evaluations = 0;  // oracle evaluations (world x program x ...)
        u64 ops = 0;          // library operations applied ("transitions")
        u64 nontrivial = 0;   // evaluations that are non-trivial by the harness' rule
        u64 skipped = 0;      // worlds outside the property's domain (counted, not judged)
        std::vector<u64> digests;  // outcome digests of non-trivial evaluations
        std::map<std::string, u64> mech;                    // mechanism hit counters
        std::map<std::string, u64> viol_counts;             // per signature
        std::map<std::string, std::vector<Violation>> viol; // first few per signature
        std::vector<std::string> samples;
        std::map<std::string, std::string> bounds;
        bool deadline_hit = false;
        bool worker_died = false;

        static constexpr std::size_t keep_per_sig = 3;
        static constexpr std::size_t max_samples = 12;

        void hit(const std::string& k, u64 n = 1)
        {
            mech[k] += n;
        }
        void violation(const std::string& sig,
                       u64 order,
                       const std::string& world,
                       const std::string& detail)
        {
            if (c08_mode() && sig.rfind("C08/", 0) != 0)
                return;
            ++viol_counts[sig];
            auto& v = viol[sig];
            v.push_back({ sig, order, world, detail });
            std::sort(v.begin(),
                      v.end(),
                      [](const Violation& a, const Violation& b) { return a.order < b.order; });
            if (v.size() > keep_per_sig)
                v.resize(keep_per_sig);
        }
        void sample(const std::string& s)
        {
            if (samples.size() < max_samples)
                samples.push_back(s);
        }
        void digest(u64 d)
        {
            digests.push_back(d);
            if (digests.size() > compact_at)
            {
                compact();
                // keep the amortised cost linear when more than the limit are distinct
                compact_at = std::max<std::size_t>(compact_at, 2 * digests.size());
            }
        }
        std::size_t compact_at = std::size_t(1) << 20;
        void compact()
        {
            std::sort(digests.begin(), digests.end());
            digests.erase(std::unique(digests.begin(), digests.end()), digests.end());
        }

        void merge(const Report& o)
        {
            worlds += o.worlds;
            evaluations += o.evaluations;
            ops += o.ops;
            nontrivial += o.nontrivial;
            skipped += o.skipped;
            digests.insert(digests.end(), o.digests.begin(), o.digests.end());
            for (auto& kv : o.mech)
                mech[kv.first] += kv.second;
            for (auto& kv : o.viol_counts)
                viol_counts[kv.first] += kv.second;
            for (auto& kv : o.viol)
            {
                auto& v = viol[kv.first];
                v.insert(v.end(), kv.second.begin(), kv.second.end());
                std::sort(v.begin(),
                          v.end(),
                          [](const Violation& a, const Violation& b)
                          { return a.order < b.order; });
                if (v.size() > keep_per_sig)
                    v.resize(keep_per_sig);
            }
            for (auto& s : o.samples)
                if (samples.size() < max_samples)
                    samples.push_back(s);
            for (auto& kv : o.bounds)
                bounds[kv.first] = kv.second;
            deadline_hit = deadline_hit || o.deadline_hit;
            worker_died = worker_died || o.worker_died;
        }

        // ---- shard file (line based, tab separated, strings escaped by jesc-ish rule)
        static std::string enc(const std::string& s)
        {
            std::string o;
            for (char c : s)
            {
                if (c == '\t')
                    o += "\\t";
                else if (c == '\n')
                    o += "\\n";
                else if (c == '\\')
                    o += "\\\\";
                else
                    o += c;
            }
            return o;
        }
        static std::string dec(const std::string& s)
        {
            std::string o;
            for (std::size_t i = 0; i < s.size(); ++i)
            {
                if (s[i] == '\\' && i + 1 < s.size())
                {
                    ++i;
                    o += s[i] == 't' ? '\t' : s[i] == 'n' ? '\n' : s[i];
                }
                else
                    o += s[i];
            }
            return o;
        }
        void write_shard(const std::string& path)
        {
            compact();
            std::string tmp = path + ".tmp";
            FILE* f = std::fopen(tmp.c_str(), "w");
            if (!f)
                std::_Exit(3);
            std::fprintf(f,
                         "N\t%" PRIu64 "\t%" PRIu64 "\t%" PRIu64 "\t%" PRIu64 "\t%" PRIu64
                         "\t%d\n",
                         worlds,
                         evaluations,
                         ops,
                         nontrivial,
                         skipped,
                         deadline_hit ? 1 : 0);
            for (auto& kv : mech)
                std::fprintf(f, "M\t%s\t%" PRIu64 "\n", enc(kv.first).c_str(), kv.second);
            for (auto& kv : viol_counts)
                std::fprintf(f, "C\t%s\t%" PRIu64 "\n", enc(kv.first).c_str(), kv.second);
            for (auto& kv : viol)
                for (auto& v : kv.second)
                    std::fprintf(f,
                                 "V\t%s\t%" PRIu64 "\t%s\t%s\n",
                                 enc(v.sig).c_str(),
                                 v.order,
                                 enc(v.world).c_str(),
                                 enc(v.detail).c_str());
            for (auto& s : samples)
                std::fprintf(f, "S\t%s\n", enc(s).c_str());
            for (auto& kv : bounds)
                std::fprintf(f, "B\t%s\t%s\n", enc(kv.first).c_str(), enc(kv.second).c_str());
            std::fprintf(f, "D\t%zu\n", digests.size());
            if (!digests.empty())
                std::fwrite(digests.data(), sizeof(u64), digests.size(), f);
            std::fclose(f);
            std::rename(tmp.c_str(), path.c_str());
        }
        bool read_shard(const std::string& path)
        {
            FILE* f = std::fopen(path.c_str(), "r");
            if (!f)
                return false;
            char* line = nullptr;
            size_t cap = 0;
            ssize_t n;
            while ((n = getline(&line, &cap, f)) > 0)
            {
                std::string l(line, static_cast<std::size_t>(n));
                if (!l.empty() && l.back() == '\n')
                    l.pop_back();
                auto p = split(l, '\t');
                if (p[0] == "N" && p.size() >= 7)
                {
                    worlds += std::strtoull(p[1].c_str(), nullptr, 10);
                    evaluations += std::strtoull(p[2].c_str(), nullptr, 10);
                    ops += std::strtoull(p[3].c_str(), nullptr, 10);
                    nontrivial += std::strtoull(p[4].c_str(), nullptr, 10);
                    skipped += std::strtoull(p[5].c_str(), nullptr, 10);
                    deadline_hit = deadline_hit || p[6] == "1";
                }
                else if (p[0] == "M" && p.size() >= 3)
                    mech[dec(p[1])] += std::strtoull(p[2].c_str(), nullptr, 10);
                else if (p[0] == "C" && p.size() >= 3)
                    viol_counts[dec(p[1])] += std::strtoull(p[2].c_str(), nullptr, 10);
                else if (p[0] == "V" && p.size() >= 5)
                {
                    Violation v{ dec(p[1]),
                                 std::strtoull(p[2].c_str(), nullptr, 10),
                                 dec(p[3]),
                                 dec(p[4]) };
                    viol[v.sig].push_back(v);
                }
                else if (p[0] == "S" && p.size() >= 2)
                {
                    if (samples.size() < max_samples)
                        samples.push_back(dec(p[1]));
                }
                else if (p[0] == "B" && p.size() >= 3)
                    bounds[dec(p[1])] = dec(p[2]);
                else if (p[0] == "D" && p.size() >= 2)
                {
                    std::size_t cnt = std::strtoull(p[1].c_str(), nullptr, 10);
                    std::size_t old = digests.size();
                    digests.resize(old + cnt);
                    if (cnt && std::fread(digests.data() + old, sizeof(u64), cnt, f) != cnt)
                    {
                        std::fclose(f);
                        std::free(line);
                        return false;
                    }
                    break;
                }
            }
            std::free(line);
            std::fclose(f);
            for (auto& kv : viol)
            {
                auto& v = kv.second;
                std::sort(v.begin(),
                          v.end(),
                          [](const Violation& a, const Violation& b)
                          { return a.order < b.order; });
                if (v.size() > keep_per_sig)
                    v.resize(keep_per_sig);
            }
            return true;
        }

        std::string to_json(const Args& a, double wall) const
        {
            std::ostringstream o;
            o << "{\n";
            o << " \"property\": \"" << jesc(a.property) << "\",\n";
            o << " \"tier\": \"" << jesc(a.tier) << "\",\n";
            o << " \"worlds\": " << worlds << ",\n";
            o << " \"evaluations\": " << evaluations << ",\n";
            o << " \"ops\": " << ops << ",\n";
            o << " \"nontrivial\": " << nontrivial << ",\n";
            o << " \"skipped\": " << skipped << ",\n";
            o << " \"distinct_nontrivial\": " << digests.size() << ",\n";
            o << " \"deadline_hit\": " << (deadline_hit ? "true" : "false") << ",\n";
            o << " \"worker_died\": " << (worker_died ? "true" : "false") << ",\n";
            o << " \"wall_s\": " << wall << ",\n";
            o << " \"mechanism_hits\": {";
            bool first = true;
            for (auto& kv : mech)
            {
                o << (first ? "" : ", ") << "\"" << jesc(kv.first) << "\": " << kv.second;
                first = false;
            }
            o << "},\n \"bounds\": {";
            first = true;
            for (auto& kv : bounds)
            {
                o << (first ? "" : ", ") << "\"" << jesc(kv.first) << "\": \"" << jesc(kv.second)
                  << "\"";
                first = false;
            }
            o << "},\n \"violation_counts\": {";
            first = true;
            for (auto& kv : viol_counts)
            {
                o << (first ? "" : ", ") << "\"" << jesc(kv.first) << "\": " << kv.second;
                first = false;
            }
            o << "},\n \"violations\": [";
            first = true;
            for (auto& kv : viol)
                for (auto& v : kv.second)
                {
                    o << (first ? "\n  " : ",\n  ") << "{\"signature\": \"" << jesc(v.sig)
                      << "\", \"order\": " << v.order << ", \"world\": \"" << jesc(v.world)
                      << "\", \"detail\": \"" << jesc(v.detail) << "\"}";
                    first = false;
                }
            o << "],\n \"samples\": [";
            first = true;
            for (auto& s : samples)
            {
                o << (first ? "\n  " : ",\n  ") << "\"" << jesc(s) << "\"";
                first = false;
            }
            o << "]\n}\n";
            return o.str();
        }
    };

    // ------------------------------------------------------------------ worker context
    struct Ctx
    {
        Args args;
        int shard = 0;
        int nshards = 1;
        Report rep;
        u64 next_world = 0;  // global enumeration counter (identical in all workers)
        std::chrono::steady_clock::time_point t0;
        std::string current_world;   // for the watchdog
        std::string current_stage;
        std::function<std::string()> world_fn;  // lazily renders the world being evaluated
        bool replay_mode = false;
        u64 stride = 1;  // C08 mode: only every stride-th world is visited

        bool thorough() const
        {
            return args.thorough();
        }
        // Claim the next world index; true when this worker owns it.
        bool mine()
        {
            u64 idx = next_world++;
            if (replay_mode)
                return true;
            if (stride > 1)
            {
                if (idx % stride != 0)
                    return false;
                idx /= stride;
            }
            return (idx % static_cast<u64>(nshards)) == static_cast<u64>(shard);
        }
        // claim a block of `count` consecutive worlds as one unit of sharding
        bool mine_block()
        {
            return mine();
        }
        u64 order() const
        {
            return next_world;
        }
        bool out_of_time()
        {
            double el = std::chrono::duration<double>(std::chrono::steady_clock::now() - t0)
                            .count();
            if (el > args.deadline_s)
            {
                rep.deadline_hit = true;
                return true;
            }
            return false;
        }
    };

    // Watchdog: a world that does not finish is reported as a hang by the worker itself.
    inline Ctx*& watchdog_ctx()
    {
        static Ctx* c = nullptr;
        return c;
    }
    inline std::string& watchdog_path()
    {
        static std::string p;
        return p;
    }
    inline void on_alarm(int)
    {
        Ctx* c = watchdog_ctx();
        // if rendering the world dead-locks (handler interrupted malloc), die by signal:
        // the parent then reports an infrastructure failure instead of a verdict
        std::signal(SIGALRM, SIG_DFL);
        alarm(5);
        if (c)
        {
            c->rep.violation(c->args.property + "/hang/" + c->current_stage,
                             c->order(),
                             c->world_fn ? c->world_fn() : c->current_world,
                             "no progress within the per-world watchdog (10 s) in stage "
                                 + c->current_stage);
            c->rep.worker_died = true;
            c->rep.write_shard(watchdog_path());
        }
        std::_Exit(0);
    }
    inline void arm(Ctx& c, const std::string& world, const char* stage)
    {
        c.current_world = world;
        c.current_stage = stage;
        alarm(10);
    }
    inline void disarm()
    {
        alarm(0);
    }

    inline std::function<void()>& replay_emit()
    {
        static std::function<void()> f;
        return f;
    }

    // A library assertion (`assert` is live in these builds), a segmentation fault or an
    // arithmetic trap while a world is being evaluated is a verdict about that world, not an
    // infrastructure failure: the worker records the world under <property>/crash/<kind>/<stage>,
    // writes its shard and stops (the rest of its shard is not explored: exhaustive=false).
    inline void on_crash(int sig)
    {
        std::signal(sig, SIG_DFL);
        std::signal(SIGALRM, SIG_DFL);
        alarm(5);
        Ctx* c = watchdog_ctx();
        if (!c)
            std::_Exit(3);
        const char* kind = sig == SIGABRT ? "abort-or-assertion" : sig == SIGSEGV ? "segv" : sig == SIGFPE ? "fpe" : sig == SIGBUS ? "bus" : "fatal-signal";
        c->rep.violation(c->args.property + "/crash/" + kind + (c->current_stage.empty() ? "" : "/" + c->current_stage),
                         c->order(),
                         c->world_fn ? c->world_fn() : c->current_world,
                         std::string("the library terminated the process (") + kind + ", signal " + std::to_string(sig)
                             + ") while this world was evaluated, stage " + c->current_stage);
        if (c->replay_mode)
        {
            if (replay_emit())
                replay_emit()();
            std::_Exit(0);
        }
        c->rep.worker_died = true;
        c->rep.write_shard(watchdog_path());
        std::_Exit(0);
    }
    inline void install_crash_handlers()
    {
#ifndef SSE_SANITIZED
        for (int sg : { SIGABRT, SIGSEGV, SIGBUS, SIGFPE, SIGILL })
            std::signal(sg, on_crash);
#endif
    }

    // Run `body(ctx)` in `jobs` forked workers (or inline for a replay) and merge.
    inline int run_sharded(const Args& a, const std::function<void(Ctx&)>& body)
    {
        auto t0 = std::chrono::steady_clock::now();
        Report total;
        if (!a.replay.empty())
        {
            Ctx c;
            c.args = a;
            c.replay_mode = true;
            c.t0 = t0;
            watchdog_ctx() = &c;
            // a replay that crashes or aborts still reports what it recorded
            replay_emit() = [&]()
            {
                Report r;
                r.merge(c.rep);
                r.compact();
                std::string js = r.to_json(a, 0.0);
                std::fputs(js.c_str(), stdout);
                std::fflush(stdout);
            };
            install_crash_handlers();
            body(c);
            total.merge(c.rep);
        }
        else
        {
            std::string base = a.out.empty() ? std::string("/tmp/sse_") + std::to_string(getpid())
                                             : a.out;
            std::vector<pid_t> pids;
            for (int s = 0; s < a.jobs; ++s)
            {
                pid_t p = fork();
                if (p < 0)
                {
                    std::perror("fork");
                    return 2;
                }
                if (p == 0)
                {
                    Ctx c;
                    c.args = a;
                    c.shard = s;
                    c.nshards = a.jobs;
                    c.t0 = t0;
                    watchdog_ctx() = &c;
                    watchdog_path() = base + ".shard" + std::to_string(s);
                    std::signal(SIGALRM, on_alarm);
                    install_crash_handlers();
                    body(c);
                    disarm();
                    c.rep.write_shard(watchdog_path());
                    std::_Exit(0);
                }
                pids.push_back(p);
            }
            bool infra_fail = false;
            for (int s = 0; s < a.jobs; ++s)
            {
                int st = 0;
                waitpid(pids[static_cast<std::size_t>(s)], &st, 0);
                std::string path = base + ".shard" + std::to_string(s);
                Report r;
                bool ok = r.read_shard(path);
                std::remove(path.c_str());
                if (!ok || !WIFEXITED(st) || WEXITSTATUS(st) != 0)
                {
                    std::fprintf(stderr,
                                 "worker %d failed (status %d, signal %d, shard file %s)\n",
                                 s,
                                 WIFEXITED(st) ? WEXITSTATUS(st) : -1,
                                 WIFSIGNALED(st) ? WTERMSIG(st) : 0,
                                 ok ? "ok" : "missing");
                    infra_fail = true;
                }
                if (ok)
                    total.merge(r);
            }
            if (infra_fail)
                total.worker_died = true;
        }
        total.compact();
        double wall
            = std::chrono::duration<double>(std::chrono::steady_clock::now() - t0).count();
        std::string js = total.to_json(a, wall);
        if (a.out.empty())
            std::fputs(js.c_str(), stdout);
        else
        {
            std::ofstream f(a.out);
            f << js;
        }
        return 0;
    }

    // ------------------------------------------------------------------ small enumerators
    // odometer over base-k digits of length n, least significant digit first
    inline bool next_pattern(std::vector<int>& d, int k)
    {
        for (std::size_t i = 0; i < d.size(); ++i)
        {
            if (++d[i] < k)
                return true;
            d[i] = 0;
        }
        return false;
    }
    inline std::string digits(const std::vector<int>& d)
    {
        std::string s;
        for (int v : d)
            s += static_cast<char>('0' + v);
        return s;
    }
    inline u64 ipow(u64 b, unsigned e)
    {
        u64 r = 1;
        while (e--)
            r *= b;
        return r;
    }

    // value maps: level -> elevation (exhaustive patterns x this fixed, listed set)
    inline const std::vector<std::vector<double>>& value_maps()
    {
        static const double ulp1 = std::nextafter(1.0, 2.0);
        static const double ulp2 = std::nextafter(ulp1, 2.0);
        static const std::vector<std::vector<double>> vm = {
            { 0.0, 1.0, 2.0, 3.0 },                       // v0 plain
            { -2.0, -1.0, 0.0, 1.0 },                     // v1 negative, zero on top
            { 0.0, 4.9406564584124654e-324, 9.8813129168249309e-324, 1.0 },  // v2 sub-normal
            { 1.0, ulp1, ulp2, 2.0 },                     // v3 one-ulp steps
            { -1e300, 0.0, 1e-300, 1e300 },               // v4 extreme magnitudes
            { 0.25, 0.5, 0.75, 1.5 }                      // v5 strictly positive (no zero level)
        };
        return vm;
    }
}

// ---------------------------------------------------------------------- sanitizer oracle (C08)
#ifdef SSE_SANITIZED
#include <execinfo.h>
#include <sanitizer/asan_interface.h>
#include <sanitizer/common_interface_defs.h>
namespace sse
{
    inline int& san_errors()
    {
        static int n = 0;
        return n;
    }
    // first frame inside the library (file:line), searching the current call stack
    inline std::string first_library_frame(std::string* top = nullptr)
    {
        void* bt[48];
        int n = backtrace(bt, 48);
        char buf[1024];
        std::string lib;
        for (int i = 0; i < n; ++i)
        {
            buf[0] = 0;
            // return addresses point after the call: step back one byte to stay on the call line
            __sanitizer_symbolize_pc(static_cast<char*>(bt[i]) - 1, "%s:%l", buf, sizeof buf);
            std::string f = buf;
            auto pos = f.find("include/fastscapelib/");
            if (pos != std::string::npos)
            {
                lib = f.substr(pos + 8);
                break;
            }
            if (top && top->empty() && f.find("libsanitizer") == std::string::npos && f.find("common.hpp") == std::string::npos
                && f.find("<null>") == std::string::npos)
                *top = f;
        }
        return lib.empty() ? "outside-library" : lib;
    }
    inline void san_record(const std::string& kind)
    {
        Ctx* c = watchdog_ctx();
        if (!c)
            return;
        std::string top;
        std::string frame = first_library_frame(&top);
        if (frame == "outside-library" && !c->current_stage.empty())
            frame += "@" + c->current_stage;  // caller-side use of something the library handed out
        c->rep.violation("C08/" + kind + "/" + frame,
                         c->order(),
                         (c->world_fn ? c->world_fn() : c->current_world) + ";via=" + c->args.property,
                         kind + " reported by the sanitizer while running the " + c->args.property + " worlds; first library frame "
                             + frame + (top.empty() ? "" : " (innermost frame " + top + ")"));
        if (++san_errors() > 60)
        {
            // error flood: stop this worker, keep what was found
            c->rep.deadline_hit = true;
            c->rep.bounds["sanitizer_error_flood"] = "worker stopped after 60 reports";
            c->rep.write_shard(watchdog_path());
            std::_Exit(0);
        }
    }
    inline void on_fatal(int sig)
    {
        std::signal(sig, SIG_DFL);
        std::signal(SIGALRM, SIG_DFL);
        alarm(5);
        san_record(sig == SIGABRT ? "abort(ubsan-or-assertion)" : sig == SIGSEGV ? "segv" : sig == SIGFPE ? "fpe" : "fatal-signal");
        Ctx* c = watchdog_ctx();
        if (c && c->replay_mode)
        {
            if (replay_emit())
                replay_emit()();
            std::_Exit(0);
        }
        if (c)
        {
            c->rep.worker_died = true;
            c->rep.write_shard(watchdog_path());
        }
        std::_Exit(0);
    }
    inline void install_san_handlers()
    {
        for (int sg : { SIGABRT, SIGSEGV, SIGBUS, SIGFPE, SIGILL })
            std::signal(sg, on_fatal);
    }
}
extern "C" void __asan_on_error()
{
    const char* d = __asan_get_report_description();
    sse::san_record(std::string("asan-") + (d ? d : "error"));
}
extern "C" const char* __asan_default_options()
{
    return "halt_on_error=0:detect_leaks=0:detect_stack_use_after_return=1:handle_abort=0:handle_segv=0:handle_sigfpe=0:"
           "handle_sigbus=0:handle_sigill=0:allocator_may_return_null=1";
}
extern "C" const char* __ubsan_default_options()
{
    return "print_stacktrace=0";
}
#endif

namespace sse
{
    // Common entry point: `served` lists the properties this harness decides.  In a
    // sanitized build, property C08 runs every served enumeration with the functional
    // oracles muted; the sanitizer (and crash handlers) are the oracle.
    inline int sse_main(int argc, char** argv, const std::vector<std::string>& served, const std::function<void(Ctx&)>& body)
    {
        Args a = parse_args(argc, argv);
        bool c08 = a.property == "C08";
        if (!c08 && std::find(served.begin(), served.end(), a.property) == served.end())
        {
            std::fprintf(stderr, "this harness does not serve %s\n", a.property.c_str());
            return 2;
        }
#ifndef SSE_SANITIZED
        if (c08)
        {
            std::fprintf(stderr, "C08 needs the sanitized build of this harness\n");
            return 2;
        }
#endif
        return run_sharded(a,
                           [&](Ctx& ctx)
                           {
#ifdef SSE_SANITIZED
                               install_san_handlers();
#endif
                               if (!c08)
                               {
                                   body(ctx);
                                   return;
                               }
                               c08_mode() = true;
                               ctx.stride = a.stride > 0 ? static_cast<u64>(a.stride) : (ctx.thorough() ? 3 : 24);
                               ctx.rep.bounds["c08_world_stride"] = std::to_string(ctx.stride);
                               if (ctx.replay_mode)
                               {
                                   // world strings carry the property whose enumeration produced them
                                   auto kv = parse_kv(ctx.args.replay);
                                   ctx.args.property = kv.count("via") ? kv["via"] : served.front();
                                   body(ctx);
                                   ctx.args.property = "C08";
                                   return;
                               }
                               for (const auto& p : served)
                               {
                                   ctx.args.property = p;
                                   ctx.next_world = 0;
                                   body(ctx);
                                   if (ctx.rep.deadline_hit)
                                       break;
                               }
                               ctx.args.property = "C08";
                           });
    }
}
