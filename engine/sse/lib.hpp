// Binding of GridSpec to the real library grid types.  Which static grid types are
// instantiated in a translation unit is selected with -DFAM_<NAME> so that the heavy
// template code is compiled once per family and in parallel.
#pragma once
#include "refgeom.hpp"

#include "fastscapelib/grid/profile_grid.hpp"
#include "fastscapelib/grid/raster_grid.hpp"
#include "fastscapelib/grid/trimesh.hpp"

namespace sse
{
    namespace fs = fastscapelib;

    inline fs::node_status to_lib(int s)
    {
        return static_cast<fs::node_status>(s);
    }

    template <class C>
    fs::profile_grid<fs::xt_selector, C> make_profile(const GridSpec& g)
    {
        using grid_t = fs::profile_grid<fs::xt_selector, C>;
        typename grid_t::nodes_status_map_type ov;
        for (auto& p : g.overrides)
            ov[static_cast<std::size_t>(p.first)] = to_lib(p.second);
        return grid_t(static_cast<std::size_t>(g.nc),
                      g.sc,
                      fs::profile_boundary_status(to_lib(g.b[0]), to_lib(g.b[1])),
                      ov);
    }

    template <fs::raster_connect RC, class C>
    fs::raster_grid<fs::xt_selector, RC, C> make_raster(const GridSpec& g)
    {
        using grid_t = fs::raster_grid<fs::xt_selector, RC, C>;
        typename grid_t::nodes_status_map_type ov;
        for (auto& p : g.overrides)
        {
            // out-of-range flat indices are mapped to an out-of-range (row, col)
            std::size_t row = static_cast<std::size_t>(p.first / g.nc), col = static_cast<std::size_t>(p.first % g.nc);
            if (p.first < 0)
            {
                row = static_cast<std::size_t>(g.nr);
                col = 0;
            }
            else if (p.first >= 100000)
            {
                // raw (row, col) key, possibly out of range in one dimension only
                row = static_cast<std::size_t>((p.first - 100000) / 100);
                col = static_cast<std::size_t>((p.first - 100000) % 100);
            }
            ov[{ row, col }] = to_lib(p.second);
        }
        std::array<fs::node_status, 4> bs{ to_lib(g.b[0]), to_lib(g.b[1]), to_lib(g.b[2]), to_lib(g.b[3]) };
        return grid_t({ { static_cast<std::size_t>(g.nr), static_cast<std::size_t>(g.nc) } },
                      { { g.sr, g.sc } },
                      fs::raster_boundary_status(bs),
                      ov);
    }

    inline fs::trimesh make_trimesh(const GridSpec& g)
    {
        MeshData m = make_mesh(g);
        xt::xtensor<double, 2> pts = xt::zeros<double>({ m.points.size(), std::size_t(2) });
        for (std::size_t i = 0; i < m.points.size(); ++i)
        {
            pts(i, 0) = m.points[i][0];
            pts(i, 1) = m.points[i][1];
        }
        xt::xtensor<std::size_t, 2> tri = xt::zeros<std::size_t>({ m.triangles.size(), std::size_t(3) });
        for (std::size_t i = 0; i < m.triangles.size(); ++i)
            for (std::size_t k = 0; k < 3; ++k)
                tri(i, k) = static_cast<std::size_t>(m.triangles[i][k]);
        if (g.smode == 0)
            return fs::trimesh(pts, tri);
        if (g.smode == 1)
        {
            xt::xtensor<fs::node_status, 1> st = xt::zeros<fs::node_status>({ std::size_t(9) });
            for (std::size_t i = 0; i < 9; ++i)
                st(i) = i == 4 ? fs::node_status::core : fs::node_status::fixed_value;
            return fs::trimesh(pts, tri, st);
        }
        std::map<std::size_t, fs::node_status> mp;
        mp[0] = fs::node_status::fixed_value;
        mp[4] = fs::node_status::fixed_gradient;
        if (g.smode == 3)
            mp[2] = fs::node_status::looped;  // must be rejected
        if (g.smode == 4)
            mp[9] = fs::node_status::core;  // out-of-range key: must be rejected
        return fs::trimesh(pts, tri, mp);
    }

    // Call f(grid) with the concrete static type for this spec; returns false when the type
    // is not compiled into this translation unit.
    template <class F>
    bool with_grid(const GridSpec& g, F&& f)
    {
#if defined(FAM_PROFILE) || defined(FAM_ALL)
        if (g.kind == PROFILE)
        {
            if (g.cache)
            {
                auto grid = make_profile<fs::neighbors_cache<2>>(g);
                f(grid);
            }
            else
            {
                auto grid = make_profile<fs::neighbors_no_cache<2>>(g);
                f(grid);
            }
            return true;
        }
#endif
#if defined(FAM_ROOK) || defined(FAM_ALL)
        if (g.kind == RASTER && g.rc == ROOK)
        {
            if (g.cache)
            {
                auto grid = make_raster<fs::raster_connect::rook, fs::neighbors_cache<4>>(g);
                f(grid);
            }
            else
            {
                auto grid = make_raster<fs::raster_connect::rook, fs::neighbors_no_cache<4>>(g);
                f(grid);
            }
            return true;
        }
#endif
#if defined(FAM_QUEEN) || defined(FAM_ALL)
        if (g.kind == RASTER && g.rc == QUEEN)
        {
            if (g.cache)
            {
                auto grid = make_raster<fs::raster_connect::queen, fs::neighbors_cache<8>>(g);
                f(grid);
            }
            else
            {
                auto grid = make_raster<fs::raster_connect::queen, fs::neighbors_no_cache<8>>(g);
                f(grid);
            }
            return true;
        }
#endif
#if defined(FAM_BISHOP) || defined(FAM_ALL)
        if (g.kind == RASTER && g.rc == BISHOP)
        {
            if (g.cache)
            {
                auto grid = make_raster<fs::raster_connect::bishop, fs::neighbors_cache<4>>(g);
                f(grid);
            }
            else
            {
                auto grid = make_raster<fs::raster_connect::bishop, fs::neighbors_no_cache<4>>(g);
                f(grid);
            }
            return true;
        }
#endif
#if defined(FAM_TRIMESH) || defined(FAM_ALL)
        if (g.kind == TRIMESH)
        {
            auto grid = make_trimesh(g);
            f(grid);
            return true;
        }
#endif
        (void) f;
        return false;
    }

    inline bool family_compiled(const std::string& fam)
    {
#if defined(FAM_ALL)
        (void) fam;
        return true;
#else
#if defined(FAM_PROFILE)
        if (fam == "profile")
            return true;
#endif
#if defined(FAM_ROOK)
        if (fam == "rook")
            return true;
#endif
#if defined(FAM_QUEEN)
        if (fam == "queen")
            return true;
#endif
#if defined(FAM_BISHOP)
        if (fam == "bishop")
            return true;
#endif
#if defined(FAM_TRIMESH)
        if (fam == "trimesh")
            return true;
#endif
        return false;
#endif
    }
}
