// Oracles for the flow properties, written against plain vectors (GState) and the
// reference geometry.  Each oracle returns a list of (signature suffix, detail).
#pragma once
#include "flowlib.hpp"

namespace sse
{
    struct FlowInputs
    {
        const RefGeom* geo = nullptr;
        std::vector<double> in;      // elevation given to update_routes
        std::vector<char> masked;    // is_masked(i)
        std::vector<char> base;      // is_base_level(i)
        std::vector<char> conn;      // unmasked and connected to an unmasked base level
        bool all_conn = true;        // every unmasked node is in conn
        std::size_t n = 0;

        void finish()
        {
            n = static_cast<std::size_t>(geo->n);
            conn.assign(n, 0);
            std::vector<std::size_t> st;
            for (std::size_t i = 0; i < n; ++i)
                if (base[i] && !masked[i])
                {
                    conn[i] = 1;
                    st.push_back(i);
                }
            while (!st.empty())
            {
                std::size_t i = st.back();
                st.pop_back();
                for (auto& nb : geo->nb[i])
                {
                    std::size_t j = static_cast<std::size_t>(nb.idx);
                    if (!masked[j] && !conn[j])
                    {
                        conn[j] = 1;
                        st.push_back(j);
                    }
                }
            }
            all_conn = true;
            for (std::size_t i = 0; i < n; ++i)
                if (!masked[i] && !conn[i])
                    all_conn = false;
        }
    };

    inline std::string node_s(std::size_t i)
    {
        return std::to_string(i);
    }

    // structural sanity shared by all oracles; returns false if the tables cannot be read
    inline bool tables_ok(const GState& s, Findings& f)
    {
        if (!s.shape_ok)
        {
            f.push_back({ "tables/shape", "graph tables do not have n rows" });
            return false;
        }
        for (std::size_t i = 0; i < s.n; ++i)
        {
            if (s.rcount[i] < 1 || s.rcount[i] > s.width)
            {
                f.push_back({ "tables/receivers-count-out-of-range",
                              "node " + node_s(i) + " count " + std::to_string(s.rcount[i]) });
                return false;
            }
            for (std::size_t k = 0; k < s.rcount[i]; ++k)
                if (s.r(i, k) >= s.n)
                {
                    f.push_back({ "tables/receiver-index-out-of-range",
                                  "node " + node_s(i) + " receiver " + std::to_string(s.r(i, k)) });
                    return false;
                }
        }
        return true;
    }

    // ------------------------------------------------------------------ C01
    inline void oracle_c01(const FlowInputs& in, const GState& s, const std::string& resolver_class, Findings& f)
    {
        if (!tables_ok(s, f))
            return;
        const double dmin = std::numeric_limits<double>::min();
        for (std::size_t i = 0; i < s.n; ++i)
        {
            if (in.masked[i] || in.base[i])
            {
                if (!(s.rcount[i] == 1 && s.r(i, 0) == i))
                    f.push_back({ "terminal-node-drains",
                                  "node " + node_s(i) + " is masked or base level but has receiver "
                                      + node_s(s.r(i, 0)) });
                continue;
            }
            if (!in.conn[i])
                continue;
            for (std::size_t k = 0; k < s.rcount[i]; ++k)
            {
                std::size_t r = s.r(i, k);
                if (r == i)
                {
                    // classify: does a strictly lower unmasked neighbour exist, and is the
                    // best slope towards it below the smallest normal double?
                    bool lower = false;
                    double best = 0;
                    for (auto& nb : in.geo->nb[i])
                    {
                        std::size_t j = static_cast<std::size_t>(nb.idx);
                        if (in.masked[j])
                            continue;
                        if (s.out[j] < s.out[i])
                        {
                            lower = true;
                            best = std::max(best, (s.out[i] - s.out[j]) / nb.dist);
                        }
                    }
                    std::string cls = !lower ? "no-lower-neighbour"
                                             : (best <= dmin ? "lower-neighbour-slope<=DBL_MIN"
                                                             : "lower-neighbour-normal-slope");
                    f.push_back({ "pit-remains/" + resolver_class + "/" + cls,
                                  "node " + node_s(i) + " reaches a base level through unmasked neighbours but is its own receiver; out="
                                      + hexd(s.out[i]) });
                    break;
                }
                if (in.masked[r])
                    f.push_back({ "flows-into-masked", "node " + node_s(i) + " -> " + node_s(r) });
                else if (!(s.out[r] < s.out[i]))
                    f.push_back({ "non-decreasing-step/" + resolver_class,
                                  "node " + node_s(i) + " (" + hexd(s.out[i]) + ") -> " + node_s(r)
                                      + " (" + hexd(s.out[r]) + ")" });
            }
        }
        // no cycle anywhere in the receiver table (self loops excluded)
        std::vector<char> colour(s.n, 0);
        for (std::size_t root = 0; root < s.n; ++root)
        {
            if (colour[root])
                continue;
            std::vector<std::pair<std::size_t, std::size_t>> st{ { root, 0 } };
            colour[root] = 1;
            while (!st.empty())
            {
                auto& top = st.back();
                std::size_t i = top.first;
                if (top.second >= s.rcount[i])
                {
                    colour[i] = 2;
                    st.pop_back();
                    continue;
                }
                std::size_t r = s.r(i, top.second++);
                if (r == i)
                    continue;
                if (colour[r] == 1)
                {
                    f.push_back({ "cycle", "receiver cycle through node " + node_s(r) });
                    return;
                }
                if (colour[r] == 0)
                {
                    colour[r] = 1;
                    st.push_back({ r, 0 });
                }
            }
        }
    }

    // ------------------------------------------------------------------ C02
    inline std::vector<double> spill_levels(const FlowInputs& in)
    {
        const double inf = std::numeric_limits<double>::infinity();
        std::vector<double> S(in.n, inf);
        for (std::size_t i = 0; i < in.n; ++i)
            if (in.base[i] && !in.masked[i])
                S[i] = in.in[i];
        bool changed = true;
        while (changed)
        {
            changed = false;
            for (std::size_t i = 0; i < in.n; ++i)
            {
                if (in.masked[i] || in.base[i])
                    continue;
                double best = inf;
                for (auto& nb : in.geo->nb[i])
                {
                    std::size_t j = static_cast<std::size_t>(nb.idx);
                    if (!in.masked[j])
                        best = std::min(best, S[j]);
                }
                double cand = std::max(in.in[i], best);
                if (cand < S[i])
                {
                    S[i] = cand;
                    changed = true;
                }
            }
        }
        return S;
    }

    inline void oracle_c02(const FlowInputs& in, const GState& s, const std::string& resolver_class, Findings& f)
    {
        std::vector<double> S = spill_levels(in);
        for (std::size_t i = 0; i < s.n; ++i)
        {
            if (!(s.out[i] >= in.in[i]))
            {
                f.push_back({ "lowered/" + resolver_class,
                              "node " + node_s(i) + " in=" + hexd(in.in[i]) + " out=" + hexd(s.out[i]) });
                continue;
            }
            if (in.masked[i] || in.base[i])
            {
                if (std::memcmp(&s.out[i], &in.in[i], sizeof(double)) != 0)
                    f.push_back({ "terminal-modified/" + resolver_class,
                                  "node " + node_s(i) + " in=" + hexd(in.in[i]) + " out=" + hexd(s.out[i]) });
                continue;
            }
            if (!in.conn[i])
                continue;
            double hi = S[i];
            for (std::size_t k = 0; k < s.n; ++k)
                hi = std::nextafter(hi, std::numeric_limits<double>::infinity());
            if (s.out[i] < S[i])
                f.push_back({ "below-spill-level/" + resolver_class,
                              "node " + node_s(i) + " spill=" + hexd(S[i]) + " out=" + hexd(s.out[i]) });
            else if (s.out[i] > hi)
                f.push_back({ "over-filled/" + resolver_class,
                              "node " + node_s(i) + " spill=" + hexd(S[i]) + " out=" + hexd(s.out[i])
                                  + " in=" + hexd(in.in[i]) });
        }
    }

    // ------------------------------------------------------------------ C04
    inline void oracle_c04(const FlowInputs& in, const GState& s, Findings& f)
    {
        if (!tables_ok(s, f))
            return;
        const double dmin = std::numeric_limits<double>::min();
        for (std::size_t i = 0; i < s.n; ++i)
        {
            if (s.rcount[i] != 1)
            {
                f.push_back({ "count-not-one", "node " + node_s(i) });
                continue;
            }
            std::size_t r = s.r(i, 0);
            if (s.w(i, 0) != 1.0)
                f.push_back({ "weight-not-one", "node " + node_s(i) + " weight " + hexd(s.w(i, 0)) });
            if (in.masked[i] || in.base[i])
            {
                if (r != i)
                    f.push_back({ "terminal-node-drains", "node " + node_s(i) + " -> " + node_s(r) });
                continue;
            }
            bool lower = false;
            double smax = -1;
            for (auto& nb : in.geo->nb[i])
            {
                std::size_t j = static_cast<std::size_t>(nb.idx);
                if (in.masked[j])
                    continue;
                if (s.out[j] < s.out[i])
                {
                    lower = true;
                    smax = std::max(smax, (s.out[i] - s.out[j]) / nb.dist);
                }
            }
            if (!lower)
            {
                if (r != i)
                    f.push_back({ "drains-without-lower-neighbour",
                                  "node " + node_s(i) + " -> " + node_s(r) });
                continue;
            }
            if (r == i)
            {
                f.push_back({ std::string("self-receiver-with-lower-neighbour/")
                                  + (smax <= dmin ? "max-slope<=DBL_MIN" : "normal-slope"),
                              "node " + node_s(i) + " elevation " + hexd(s.out[i]) + " max slope "
                                  + hexd(smax) });
                continue;
            }
            // r must be an unmasked neighbour of maximal slope with the matching distance
            bool ok = false, isnb = false;
            for (auto& nb : in.geo->nb[i])
            {
                if (static_cast<std::size_t>(nb.idx) != r)
                    continue;
                isnb = true;
                double sl = (s.out[i] - s.out[r]) / nb.dist;
                if (!in.masked[r] && sl == smax && s.d(i, 0) == nb.dist)
                    ok = true;
            }
            if (!isnb)
                f.push_back({ "receiver-not-a-neighbour", "node " + node_s(i) + " -> " + node_s(r) });
            else if (in.masked[r])
                f.push_back({ "flows-into-masked", "node " + node_s(i) + " -> " + node_s(r) });
            else if (!ok)
            {
                double sl = (s.out[i] - s.out[r]) / s.d(i, 0);
                f.push_back({ sl == smax ? "wrong-distance" : "not-steepest",
                              "node " + node_s(i) + " -> " + node_s(r) + " stored distance "
                                  + hexd(s.d(i, 0)) + " slope " + hexd(sl) + " max " + hexd(smax) });
            }
        }
    }

    // ------------------------------------------------------------------ C05
    inline void oracle_c05(const FlowInputs& in, const GState& s, double p, Findings& f)
    {
        if (!tables_ok(s, f))
            return;
        for (std::size_t i = 0; i < s.n; ++i)
        {
            std::vector<std::pair<std::size_t, double>> want;  // (idx, dist) multiset
            if (!in.masked[i] && !in.base[i])
                for (auto& nb : in.geo->nb[i])
                {
                    std::size_t j = static_cast<std::size_t>(nb.idx);
                    if (!in.masked[j] && s.out[j] < s.out[i])
                        want.push_back({ j, nb.dist });
                }
            if (want.empty())
            {
                if (!(s.rcount[i] == 1 && s.r(i, 0) == i))
                    f.push_back({ in.masked[i] || in.base[i] ? "terminal-node-drains"
                                                             : "drains-without-lower-neighbour",
                                  "node " + node_s(i) + " count " + std::to_string(s.rcount[i])
                                      + " first receiver " + node_s(s.r(i, 0)) });
                continue;
            }
            std::vector<std::pair<std::size_t, double>> got;
            for (std::size_t k = 0; k < s.rcount[i]; ++k)
                got.push_back({ s.r(i, k), s.d(i, k) });
            auto ws = want, gs = got;
            std::sort(ws.begin(), ws.end());
            std::sort(gs.begin(), gs.end());
            if (ws != gs)
            {
                bool self = s.rcount[i] == 1 && s.r(i, 0) == i;
                f.push_back({ self ? "self-receiver-with-lower-neighbour" : "receiver-set-mismatch",
                              "node " + node_s(i) + " expected " + std::to_string(ws.size())
                                  + " lower neighbours, got " + std::to_string(gs.size()) });
                continue;
            }
            // weights: finite, proportional to slope^p, sum one.  Slopes are evaluated in
            // double exactly as the property states them (drop / distance), so that
            // sub-normal rounding of a slope is not mistaken for a wrong weight; powers and
            // the normalisation are evaluated in long double relative to the largest slope,
            // which cannot underflow or overflow.
            long double smax = 0;
            std::vector<long double> sl(got.size());
            for (std::size_t k = 0; k < got.size(); ++k)
            {
                double sd = (s.out[i] - s.out[got[k].first]) / got[k].second;
                sl[k] = sd;
                smax = std::max(smax, sl[k]);
            }
            if (!(smax > 0))
            {
                // every slope rounds to zero although the neighbours are strictly lower
                // (sub-normal drop over a distance > 1): proportionality is undefined; only
                // finiteness and the sum are judged
                smax = 1;
                for (auto& v : sl)
                    v = 1;
            }
            long double tot = 0;
            std::vector<long double> e(got.size());
            for (std::size_t k = 0; k < got.size(); ++k)
            {
                e[k] = std::pow(sl[k] / smax, static_cast<long double>(p));
                tot += e[k];
            }
            long double sum = 0;
            bool bad = false;
            for (std::size_t k = 0; k < got.size(); ++k)
            {
                double w = s.w(i, k);
                if (!std::isfinite(w))
                {
                    // classify the mechanism from the slopes the library would have used
                    double sd = (s.out[i] - s.out[got[k].first]) / got[k].second;
                    double pw = std::pow(sd, p);
                    std::string cls = pw == 0 ? "pow-underflow" : (std::isinf(pw) ? "pow-overflow" : "other");
                    f.push_back({ "non-finite-weight/" + cls,
                                  "node " + node_s(i) + " receiver " + node_s(got[k].first)
                                      + " weight " + hexd(w) + " slope " + hexd(sd) + " p=" + hexd(p) });
                    bad = true;
                    break;
                }
                sum += w;
                if (!(std::fabs(static_cast<long double>(w) - e[k] / tot) <= 1e-9L))
                {
                    f.push_back({ "weight-not-proportional",
                                  "node " + node_s(i) + " receiver " + node_s(got[k].first)
                                      + " weight " + hexd(w) + " expected "
                                      + hexd(static_cast<double>(e[k] / tot)) });
                    bad = true;
                    break;
                }
            }
            if (!bad && !(std::fabs(sum - 1.0L) <= 1e-12L))
                f.push_back({ "weights-do-not-sum-to-one",
                              "node " + node_s(i) + " sum " + hexd(static_cast<double>(sum)) });
        }
    }

    // ------------------------------------------------------------------ C06
    inline void oracle_c06(const GState& s, Findings& f)
    {
        if (!tables_ok(s, f))
            return;
        // donors = inverse of receivers, multiset, self entries ignored
        std::vector<std::vector<std::size_t>> want(s.n), got(s.n);
        for (std::size_t i = 0; i < s.n; ++i)
            for (std::size_t k = 0; k < s.rcount[i]; ++k)
                if (s.r(i, k) != i)
                    want[s.r(i, k)].push_back(i);
        for (std::size_t i = 0; i < s.n; ++i)
        {
            if (s.dcount[i] > s.dwidth)
            {
                f.push_back({ "donors-count-out-of-range", "node " + node_s(i) });
                return;
            }
            for (std::size_t k = 0; k < s.dcount[i]; ++k)
                if (s.don(i, k) != i)
                    got[i].push_back(s.don(i, k));
            std::sort(want[i].begin(), want[i].end());
            std::sort(got[i].begin(), got[i].end());
            if (want[i] != got[i])
            {
                f.push_back({ "donors-not-inverse-of-receivers",
                              "node " + node_s(i) + " expected " + std::to_string(want[i].size())
                                  + " donors, table lists " + std::to_string(got[i].size()) });
                break;
            }
        }
        auto is_perm = [&](const std::vector<std::size_t>& v, std::vector<std::size_t>& pos)
        {
            if (v.size() != s.n)
                return false;
            pos.assign(s.n, s.n);
            for (std::size_t k = 0; k < v.size(); ++k)
            {
                if (v[k] >= s.n || pos[v[k]] != s.n)
                    return false;
                pos[v[k]] = k;
            }
            return true;
        };
        std::vector<std::size_t> pos;
        if (!is_perm(s.dfs, pos))
            f.push_back({ "dfs-not-a-permutation", "" });
        else
            for (std::size_t i = 0; i < s.n; ++i)
                for (std::size_t k = 0; k < s.rcount[i]; ++k)
                    if (s.r(i, k) != i && !(pos[s.r(i, k)] < pos[i]))
                    {
                        f.push_back({ "dfs-node-before-its-receiver",
                                      "node " + node_s(i) + " receiver " + node_s(s.r(i, k)) });
                        i = s.n;
                        break;
                    }
        if (!is_perm(s.bfs, pos))
            f.push_back({ "bfs-not-a-permutation", "" });
        else
        {
            bool lv_ok = s.levels.size() >= 2 && s.levels.front() == 0 && s.levels.back() == s.n;
            for (std::size_t k = 1; lv_ok && k < s.levels.size(); ++k)
                if (!(s.levels[k] > s.levels[k - 1]))
                    lv_ok = false;
            if (!lv_ok)
                f.push_back({ "bfs-levels-not-a-partition",
                              "levels size " + std::to_string(s.levels.size()) });
            else
            {
                std::vector<std::size_t> lev(s.n, 0);
                for (std::size_t k = 1; k < s.levels.size(); ++k)
                    for (std::size_t q = s.levels[k - 1]; q < s.levels[k]; ++q)
                        lev[s.bfs[q]] = k;
                for (std::size_t i = 0; i < s.n; ++i)
                    for (std::size_t k = 0; k < s.rcount[i]; ++k)
                        if (s.r(i, k) != i && !(lev[s.r(i, k)] < lev[i]))
                        {
                            f.push_back({ "bfs-receiver-not-in-earlier-level",
                                          "node " + node_s(i) + " level " + std::to_string(lev[i])
                                              + " receiver " + node_s(s.r(i, k)) + " level "
                                              + std::to_string(lev[s.r(i, k)]) });
                            i = s.n;
                            break;
                        }
            }
        }
    }

    // ------------------------------------------------------------------ C19
    inline void oracle_c19(const FlowInputs& in,
                           const GState& s,
                           const std::vector<std::size_t>& labels,
                           const std::vector<std::size_t>& outlets,
                           const std::vector<std::size_t>& pits,
                           Findings& f)
    {
        if (!tables_ok(s, f))
            return;
        const std::size_t none = std::numeric_limits<std::size_t>::max();
        if (labels.size() != s.n)
        {
            f.push_back({ "labels-wrong-size", "" });
            return;
        }
        std::vector<std::size_t> want_outlets;
        for (std::size_t k = 0; k < s.dfs.size(); ++k)
        {
            std::size_t i = s.dfs[k];
            if (i < s.n && !in.masked[i] && s.r(i, 0) == i)
                want_outlets.push_back(i);
        }
        if (want_outlets != outlets)
            f.push_back({ "outlets-mismatch",
                          "expected " + std::to_string(want_outlets.size()) + " outlets in bottom-up order, got "
                              + std::to_string(outlets.size()) });
        std::set<std::size_t> distinct;
        for (std::size_t i = 0; i < s.n; ++i)
        {
            if (in.masked[i])
            {
                if (labels[i] != none)
                    f.push_back({ "masked-node-labelled", "node " + node_s(i) });
                continue;
            }
            distinct.insert(labels[i]);
            if (labels[i] == none)
            {
                f.push_back({ "unmasked-node-unlabelled", "node " + node_s(i) });
                continue;
            }
            std::size_t r = s.r(i, 0);
            if (!in.masked[r] && labels[r] != labels[i])
                f.push_back({ "label-differs-from-receiver",
                              "node " + node_s(i) + " label " + std::to_string(labels[i]) + " receiver "
                                  + node_s(r) + " label " + std::to_string(labels[r]) });
        }
        for (std::size_t k = 0; k < want_outlets.size(); ++k)
            if (labels[want_outlets[k]] != k)
            {
                f.push_back({ "outlet-labels-not-consecutive",
                              "outlet " + node_s(want_outlets[k]) + " label "
                                  + std::to_string(labels[want_outlets[k]]) + " expected " + std::to_string(k) });
                break;
            }
        if (distinct.size() != want_outlets.size())
            f.push_back({ "label-count-differs-from-outlet-count",
                          std::to_string(distinct.size()) + " labels, " + std::to_string(want_outlets.size())
                              + " outlets" });
        std::vector<std::size_t> want_pits;
        for (auto o : want_outlets)
            if (!in.base[o])
                want_pits.push_back(o);
        if (want_pits != pits)
            f.push_back({ "pits-mismatch",
                          "expected " + std::to_string(want_pits.size()) + " pits, got "
                              + std::to_string(pits.size()) });
    }
}
