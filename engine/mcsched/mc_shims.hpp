// Shim types substituted for std::atomic / std::atomic_bool / std::mutex /
// std::condition_variable / std::thread while the library headers are included.
// They hold only an object id; all state lives in the (uninstrumented) runtime, and
// their member functions are excluded from thread-sanitizer instrumentation.
#pragma once
#include "mc_rt.hpp"

#include <atomic>
#include <chrono>
#include <condition_variable>
#include <cstring>
#include <functional>
#include <mutex>
#include <thread>
#include <type_traits>

#define MC_NOSAN __attribute__((no_sanitize_thread))

namespace std
{
    template <class T>
    struct verif_atomic
    {
        static_assert(sizeof(T) <= 8 && std::is_trivially_copyable<T>::value, "shim supports small trivially copyable types");
        int id;
        MC_NOSAN static std::uint64_t enc(T v) noexcept
        {
            std::uint64_t u = 0;
            std::memcpy(&u, &v, sizeof(T));
            return u;
        }
        MC_NOSAN static T dec(std::uint64_t u) noexcept
        {
            T v;
            std::memcpy(&v, &u, sizeof(T));
            return v;
        }
        MC_NOSAN verif_atomic() noexcept
            : id(mc::new_object(0))
        {
        }
        MC_NOSAN verif_atomic(T x) noexcept
            : id(mc::new_object(enc(x)))
        {
        }
        verif_atomic(const verif_atomic&) = delete;
        verif_atomic& operator=(const verif_atomic&) = delete;
        MC_NOSAN T load(std::memory_order mo = std::memory_order_seq_cst) const noexcept
        {
            return dec(mc::atomic_load(id, static_cast<int>(mo)));
        }
        MC_NOSAN void store(T x, std::memory_order mo = std::memory_order_seq_cst) noexcept
        {
            mc::atomic_store(id, enc(x), static_cast<int>(mo));
        }
        MC_NOSAN T exchange(T x, std::memory_order mo = std::memory_order_seq_cst) noexcept
        {
            return dec(mc::atomic_exchange(id, enc(x), static_cast<int>(mo)));
        }
        MC_NOSAN operator T() const noexcept
        {
            return load();
        }
        MC_NOSAN T operator=(T x) noexcept
        {
            store(x);
            return x;
        }
        MC_NOSAN T fetch_add(T d, std::memory_order mo = std::memory_order_seq_cst) noexcept
        {
            return static_cast<T>(dec(mc::atomic_rmw_add(id, static_cast<std::int64_t>(d), static_cast<int>(mo))) - d);
        }
        MC_NOSAN T fetch_sub(T d, std::memory_order mo = std::memory_order_seq_cst) noexcept
        {
            return static_cast<T>(dec(mc::atomic_rmw_add(id, -static_cast<std::int64_t>(d), static_cast<int>(mo))) + d);
        }
        MC_NOSAN T operator++() noexcept
        {
            return dec(mc::atomic_rmw_add(id, 1, mc::MO_SEQ_CST));
        }
        MC_NOSAN T operator--() noexcept
        {
            return dec(mc::atomic_rmw_add(id, -1, mc::MO_SEQ_CST));
        }
        MC_NOSAN T operator++(int) noexcept
        {
            return static_cast<T>(dec(mc::atomic_rmw_add(id, 1, mc::MO_SEQ_CST)) - 1);
        }
        MC_NOSAN T operator--(int) noexcept
        {
            return static_cast<T>(dec(mc::atomic_rmw_add(id, -1, mc::MO_SEQ_CST)) + 1);
        }
    };
    using verif_atomic_bool = verif_atomic<bool>;

    struct verif_mutex
    {
        int id;
        MC_NOSAN verif_mutex()
            : id(mc::new_object())
        {
        }
        verif_mutex(const verif_mutex&) = delete;
        MC_NOSAN void lock()
        {
            mc::mutex_lock(id);
        }
        MC_NOSAN void unlock()
        {
            mc::mutex_unlock(id);
        }
        MC_NOSAN bool try_lock()
        {
            mc::fail("ASSERT", "try_lock is not modelled");
        }
    };

    struct verif_cv
    {
        int id;
        MC_NOSAN verif_cv()
            : id(mc::new_object())
        {
        }
        verif_cv(const verif_cv&) = delete;
        template <class L>
        MC_NOSAN void wait(L& l)
        {
            mc::cv_wait(id, l.mutex()->id);
        }
        template <class L, class P>
        void wait(L& l, P p)
        {
            while (!p())
                wait(l);
        }
        MC_NOSAN void notify_all()
        {
            mc::cv_notify(id, true);
        }
        MC_NOSAN void notify_one()
        {
            mc::cv_notify(id, false);
        }
    };

    struct verif_thread
    {
        int tid = -1;
        verif_thread() = default;
        template <class F, class = std::enable_if_t<!std::is_same<std::decay_t<F>, verif_thread>::value>>
        explicit verif_thread(F&& f)
        {
            tid = mc::thread_spawn(std::function<void()>(std::forward<F>(f)));
        }
        verif_thread(const verif_thread&) = delete;
        verif_thread(verif_thread&& o) noexcept
            : tid(o.tid)
        {
            o.tid = -1;
        }
        verif_thread& operator=(verif_thread&& o) noexcept
        {
            if (tid >= 0)
                std::terminate();
            tid = o.tid;
            o.tid = -1;
            return *this;
        }
        void join()
        {
            mc::thread_join(tid);
            tid = -1;
        }
        bool joinable() const
        {
            return tid >= 0;
        }
        ~verif_thread()
        {
            if (tid >= 0 && mc::in_execution())
                mc::fail("ASSERT", "std::thread destroyed while joinable (std::terminate)");
        }
        static unsigned hardware_concurrency() noexcept
        {
            return 4;
        }
    };
}

// The identifiers below are replaced while the library headers are included; every system
// and third-party header the library uses must have been included BEFORE this point.
#define MC_BEGIN_LIBRARY_INCLUDE \
    _Pragma("push_macro(\"atomic\")") _Pragma("push_macro(\"atomic_bool\")") _Pragma("push_macro(\"mutex\")") \
        _Pragma("push_macro(\"condition_variable\")") _Pragma("push_macro(\"thread\")")
