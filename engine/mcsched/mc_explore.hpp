// Parent-side explorer: depth-first enumeration of schedules (choice sequences) with a
// preemption bound, one forked child per execution, up to `jobs` children in flight,
// optional pruning on (state, remaining budget).
#pragma once
#include "mc_rt.hpp"

#include <chrono>
#include <map>
#include <poll.h>
#include <set>
#include <string>
#include <sys/wait.h>
#include <unistd.h>
#include <unordered_map>

namespace mc
{
    struct ExploreConfig
    {
        int bound = 1;          // preemption bound (-1 = unbounded)
        bool cache = false;     // prune alternatives of states already expanded with >= budget
        int jobs = 16;
        double deadline_s = 1e9;
        int spurious = 0;
        long max_executions = -1;
        int horizon = 20000;
    };

    struct Bad
    {
        std::string verdict, detail;
        std::vector<int> schedule;  // complete choice sequence of the failing execution
        std::vector<std::string> races;
        long count = 0;
    };

    struct ExploreStats
    {
        long executions = 0;
        long steps = 0;
        long max_steps = 0;
        long max_choice_points = 0;
        long pruned_points = 0;
        long with_preemption = 0;  // executions that took at least one preemptive switch
        std::set<std::uint64_t> states;
        std::set<std::uint64_t> outcomes;  // distinct (final choice-point state) per execution
        std::map<std::string, long> verdicts;
        std::map<std::string, Bad> bad;  // keyed by signature
        bool complete = true;
        std::string incomplete_reason;
        std::vector<std::vector<int>> sample_schedules;
    };

    // `sig_of` turns a failing result into a mechanism signature (without property prefix)
    inline ExploreStats explore(const std::function<void()>& scenario,
                                const ExploreConfig& cfg,
                                const std::function<std::vector<std::string>(const Result&)>& sigs_of)
    {
        ExploreStats st;
        auto t0 = std::chrono::steady_clock::now();
        std::vector<std::vector<int>> stack{ {} };
        std::unordered_map<std::uint64_t, int> seen;
        // Runner processes are forked once, while this process is still small, and fork the
        // executions themselves: forking from the (growing) explorer process would dominate.
        struct Fly
        {
            int fd = -1;      // results from the runner
            int to_fd = -1;   // prefixes to the runner
            int pid = 0;
            bool busy = false;
            std::vector<int> prefix;
            std::string buf;
        };
        std::vector<Fly> runners(static_cast<std::size_t>(std::max(1, cfg.jobs)));
        for (auto& rn : runners)
        {
            int to[2], from[2];
            if (pipe(to) != 0 || pipe(from) != 0)
            {
                st.complete = false;
                st.incomplete_reason = "pipe failed";
                return st;
            }
            pid_t p = fork();
            if (p == 0)
            {
                close(to[1]);
                close(from[0]);
                // drop the pipe ends of the runners created before this one, otherwise they
                // never see end-of-file when the explorer closes its side
                for (auto& other : runners)
                {
                    if (other.to_fd >= 0)
                        close(other.to_fd);
                    if (other.fd >= 0)
                        close(other.fd);
                }
                FILE* in = fdopen(to[0], "r");
                char* line = nullptr;
                size_t cap = 0;
                while (getline(&line, &cap, in) > 0)
                {
                    ExecOptions o;
                    o.spurious_budget = cfg.spurious;
                    o.horizon = cfg.horizon;
                    char* q = line;
                    long cnt = std::strtol(q, &q, 10);
                    for (long i = 0; i < cnt; ++i)
                        o.prefix.push_back(static_cast<int>(std::strtol(q, &q, 10)));
                    int cpid = 0;
                    int fd = spawn_execution(scenario, o, &cpid);
                    std::string raw;
                    char b[65536];
                    ssize_t n;
                    while (fd >= 0 && (n = read(fd, b, sizeof b)) > 0)
                        raw.append(b, static_cast<std::size_t>(n));
                    if (fd >= 0)
                        close(fd);
                    int wst = 0;
                    if (cpid > 0)
                        waitpid(cpid, &wst, 0);
                    raw += std::string("\x01") + "END " + std::to_string(wst) + "\n";
                    std::size_t off = 0;
                    while (off < raw.size())
                    {
                        ssize_t w = write(from[1], raw.data() + off, raw.size() - off);
                        if (w <= 0)
                            _exit(1);
                        off += static_cast<std::size_t>(w);
                    }
                }
                _exit(0);
            }
            close(to[0]);
            close(from[1]);
            rn.fd = from[0];
            rn.to_fd = to[1];
            rn.pid = p;
        }
        auto launch = [&](Fly& rn, const std::vector<int>& prefix)
        {
            std::string msg = std::to_string(prefix.size());
            for (int c : prefix)
                msg += " " + std::to_string(c);
            msg += "\n";
            rn.prefix = prefix;
            rn.buf.clear();
            rn.busy = true;
            if (write(rn.to_fd, msg.data(), msg.size()) != static_cast<ssize_t>(msg.size()))
            {
                st.complete = false;
                st.incomplete_reason = "runner pipe write failed";
                rn.busy = false;
            }
        };
        auto handle = [&](Fly& f, int wst)
        {
            Result r;
            parse_result(f.buf, wst, r);
            ++st.executions;
            st.steps += r.steps;
            st.max_steps = std::max(st.max_steps, r.steps);
            st.max_choice_points = std::max<long>(st.max_choice_points, static_cast<long>(r.cps.size()));
            ++st.verdicts[r.verdict];
            std::vector<int> choices;
            bool pre = false;
            for (auto& c : r.cps)
            {
                choices.push_back(c.chosen);
                st.states.insert(c.state);
                if (c.me_enabled && c.chosen != 0)
                    pre = true;
            }
            if (pre)
                ++st.with_preemption;
            // a child that died (signal) could not report its choice points: the schedule is
            // the prefix it was given, continued with default choices
            if (choices.size() < f.prefix.size())
                choices = f.prefix;
            {
                std::uint64_t h = 1469598103934665603ull;
                for (auto& c : r.cps)
                {
                    h ^= c.state;
                    h *= 1099511628211ull;
                }
                st.outcomes.insert(h);
            }
            if (st.sample_schedules.size() < 6 && (pre || st.sample_schedules.empty()))
                st.sample_schedules.push_back(choices);
            if (r.verdict != "OK" || !r.races.empty())
            {
                for (auto& sg : sigs_of(r))
                {
                    Bad& b = st.bad[sg];
                    if (b.count++ == 0 || choices.size() < b.schedule.size())
                    {
                        b.verdict = r.verdict;
                        b.detail = r.detail;
                        b.schedule = choices;
                        b.races = r.races;
                    }
                }
            }
            if (r.verdict == "DIVERGE" || r.verdict == "EMPTY")
            {
                // not a property verdict: the harness itself misbehaved
                st.complete = false;
                st.incomplete_reason = "execution ended with " + r.verdict + " " + r.detail;
            }
            // expand alternatives
            int used = 0;
            std::vector<int> used_before(r.cps.size() + 1, 0);
            for (std::size_t i = 0; i < r.cps.size(); ++i)
            {
                used_before[i] = used;
                if (r.cps[i].me_enabled && r.cps[i].chosen != 0)
                    ++used;
            }
            for (std::size_t i = f.prefix.size(); i < r.cps.size(); ++i)
            {
                int rem = cfg.bound < 0 ? 1000000 : cfg.bound - used_before[i];
                if (cfg.cache)
                {
                    auto it = seen.find(r.cps[i].state);
                    if (it != seen.end() && it->second >= rem)
                    {
                        ++st.pruned_points;
                        continue;
                    }
                    seen[r.cps[i].state] = rem;
                }
                for (int alt = 1; alt < r.cps[i].n; ++alt)
                {
                    int cost = used_before[i] + (r.cps[i].me_enabled ? 1 : 0);
                    if (cfg.bound >= 0 && cost > cfg.bound)
                        continue;
                    std::vector<int> np(choices.begin(), choices.begin() + static_cast<std::ptrdiff_t>(i));
                    np.push_back(alt);
                    stack.push_back(std::move(np));
                }
            }
        };
        auto busy_count = [&]()
        {
            long c = 0;
            for (auto& rn : runners)
                if (rn.busy)
                    ++c;
            return c;
        };
        while (!stack.empty() || busy_count() > 0)
        {
            double el = std::chrono::duration<double>(std::chrono::steady_clock::now() - t0).count();
            bool stop = el > cfg.deadline_s || (cfg.max_executions >= 0 && st.executions + busy_count() >= cfg.max_executions);
            if (stop && !stack.empty())
            {
                st.complete = false;
                if (st.incomplete_reason.empty())
                    st.incomplete_reason = el > cfg.deadline_s ? "deadline" : "execution cap";
                stack.clear();
            }
            for (auto& rn : runners)
                if (!rn.busy && !stack.empty())
                {
                    auto p = std::move(stack.back());
                    stack.pop_back();
                    launch(rn, p);
                }
            std::vector<pollfd> pf;
            std::vector<std::size_t> idx;
            for (std::size_t i = 0; i < runners.size(); ++i)
                if (runners[i].busy)
                {
                    pf.push_back({ runners[i].fd, POLLIN, 0 });
                    idx.push_back(i);
                }
            if (pf.empty())
                continue;
            poll(pf.data(), static_cast<nfds_t>(pf.size()), 1000);
            for (std::size_t k = 0; k < pf.size(); ++k)
            {
                if (!(pf[k].revents & (POLLIN | POLLHUP | POLLERR)))
                    continue;
                Fly& rn = runners[idx[k]];
                char buf[65536];
                ssize_t n = read(rn.fd, buf, sizeof buf);
                if (n <= 0)
                {
                    st.complete = false;
                    st.incomplete_reason = "runner died";
                    rn.busy = false;
                    continue;
                }
                rn.buf.append(buf, static_cast<std::size_t>(n));
                const std::string marker = std::string("\x01") + "END ";
                auto pos = rn.buf.find(marker);
                if (pos != std::string::npos && rn.buf.find('\n', pos) != std::string::npos)
                {
                    int wst = std::atoi(rn.buf.c_str() + pos + marker.size());
                    rn.buf.resize(pos);
                    rn.busy = false;
                    handle(rn, wst);
                }
            }
        }
        for (auto& rn : runners)
        {
            close(rn.to_fd);
            close(rn.fd);
            int wst = 0;
            waitpid(rn.pid, &wst, 0);
        }
        return st;
    }

    // run one complete schedule (replay); returns the result
    inline Result run_schedule(const std::function<void()>& scenario, const std::vector<int>& schedule, bool trace, int spurious = 0)
    {
        ExecOptions o;
        o.prefix = schedule;
        o.trace = trace;
        o.spurious_budget = spurious;
        int pid = 0;
        int fd = spawn_execution(scenario, o, &pid);
        std::string buf;
        char b[65536];
        ssize_t n;
        while ((n = read(fd, b, sizeof b)) > 0)
            buf.append(b, static_cast<std::size_t>(n));
        close(fd);
        int wst = 0;
        waitpid(pid, &wst, 0);
        Result r;
        parse_result(buf, wst, r);
        return r;
    }
}
