// Replacement for libtsan: the harness TU is compiled with -fsanitize=thread (compiler
// instrumentation only) and linked against these callbacks, which feed every plain memory
// access of the instrumented code into the happens-before detector of the MCSCHED runtime.
// Compiled WITHOUT instrumentation.
#include "mc_rt.hpp"

#include <cstdlib>
#include <cstring>
#include <malloc.h>
#include <new>

#define PC __builtin_return_address(0)

namespace
{
    // shadow call stack of the running thread (call-site addresses)
    struct CallStack
    {
        const void* s[256];
        int n = 0;
    };
    thread_local CallStack cs;
    inline void ctx()
    {
        int n = cs.n > 256 ? 256 : cs.n;
        mc::set_call_context(n >= 1 ? cs.s[n - 1] : nullptr, n >= 2 ? cs.s[n - 2] : nullptr, n >= 3 ? cs.s[n - 3] : nullptr);
    }
    inline void rd(void* a, const void* pc)
    {
        if (mc::instrumentation_enabled())
        {
            ctx();
            mc::data_read(a, nullptr, pc);
        }
    }
    inline void wr(void* a, const void* pc)
    {
        if (mc::instrumentation_enabled())
        {
            ctx();
            mc::data_write(a, nullptr, pc);
        }
    }
    inline void rd_range(void* a, std::size_t n, const void* pc)
    {
        if (!mc::instrumentation_enabled())
            return;
        char* p = static_cast<char*>(a);
        ctx();
        for (std::size_t i = 0; i < n; i += 8)
            mc::data_read(p + i, nullptr, pc);
    }
    inline void wr_range(void* a, std::size_t n, const void* pc)
    {
        if (!mc::instrumentation_enabled())
            return;
        char* p = static_cast<char*>(a);
        ctx();
        for (std::size_t i = 0; i < n; i += 8)
            mc::data_write(p + i, nullptr, pc);
    }
}

extern "C"
{
    void __tsan_init()
    {
    }
    void __tsan_func_entry(void* call_site)
    {
        if (cs.n < 256)
            cs.s[cs.n] = call_site;
        ++cs.n;
    }
    void __tsan_func_exit()
    {
        if (cs.n > 0)
            --cs.n;
    }
    void __tsan_read1(void* a)
    {
        rd(a, PC);
    }
    void __tsan_read2(void* a)
    {
        rd(a, PC);
    }
    void __tsan_read4(void* a)
    {
        rd(a, PC);
    }
    void __tsan_read8(void* a)
    {
        rd(a, PC);
    }
    void __tsan_read16(void* a)
    {
        rd(a, PC);
        rd(static_cast<char*>(a) + 8, PC);
    }
    void __tsan_write1(void* a)
    {
        wr(a, PC);
    }
    void __tsan_write2(void* a)
    {
        wr(a, PC);
    }
    void __tsan_write4(void* a)
    {
        wr(a, PC);
    }
    void __tsan_write8(void* a)
    {
        wr(a, PC);
    }
    void __tsan_write16(void* a)
    {
        wr(a, PC);
        wr(static_cast<char*>(a) + 8, PC);
    }
    void __tsan_unaligned_read2(void* a)
    {
        rd(a, PC);
    }
    void __tsan_unaligned_read4(void* a)
    {
        rd(a, PC);
    }
    void __tsan_unaligned_read8(void* a)
    {
        rd(a, PC);
    }
    void __tsan_unaligned_read16(void* a)
    {
        rd(a, PC);
    }
    void __tsan_unaligned_write2(void* a)
    {
        wr(a, PC);
    }
    void __tsan_unaligned_write4(void* a)
    {
        wr(a, PC);
    }
    void __tsan_unaligned_write8(void* a)
    {
        wr(a, PC);
    }
    void __tsan_unaligned_write16(void* a)
    {
        wr(a, PC);
    }
    void __tsan_read_range(void* a, unsigned long n)
    {
        rd_range(a, n, PC);
    }
    void __tsan_write_range(void* a, unsigned long n)
    {
        wr_range(a, n, PC);
    }
    void __tsan_vptr_update(void** vptr, void*)
    {
        wr(vptr, PC);
    }
    void __tsan_vptr_read(void** vptr)
    {
        rd(vptr, PC);
    }

    // Real std::atomic objects that remain in instrumented code (shared_ptr reference counts,
    // std::function internals): only one thread runs at a time under the scheduler, so plain
    // operations are atomic; they are not scheduling points and create no happens-before edge
    // (conservative: an edge that is missing can only add reports, never hide one).
#define MC_ATOMIC(N, T)                                                                                          \
    T __tsan_atomic##N##_load(const volatile T* a, int)                                                         \
    {                                                                                                            \
        return *a;                                                                                               \
    }                                                                                                            \
    void __tsan_atomic##N##_store(volatile T* a, T v, int)                                                       \
    {                                                                                                            \
        *a = v;                                                                                                  \
    }                                                                                                            \
    T __tsan_atomic##N##_exchange(volatile T* a, T v, int)                                                       \
    {                                                                                                            \
        T o = *a;                                                                                                \
        *a = v;                                                                                                  \
        return o;                                                                                                \
    }                                                                                                            \
    T __tsan_atomic##N##_fetch_add(volatile T* a, T v, int)                                                      \
    {                                                                                                            \
        T o = *a;                                                                                                \
        *a = static_cast<T>(o + v);                                                                              \
        return o;                                                                                                \
    }                                                                                                            \
    T __tsan_atomic##N##_fetch_sub(volatile T* a, T v, int)                                                      \
    {                                                                                                            \
        T o = *a;                                                                                                \
        *a = static_cast<T>(o - v);                                                                              \
        return o;                                                                                                \
    }                                                                                                            \
    T __tsan_atomic##N##_fetch_and(volatile T* a, T v, int)                                                      \
    {                                                                                                            \
        T o = *a;                                                                                                \
        *a = static_cast<T>(o & v);                                                                              \
        return o;                                                                                                \
    }                                                                                                            \
    T __tsan_atomic##N##_fetch_or(volatile T* a, T v, int)                                                       \
    {                                                                                                            \
        T o = *a;                                                                                                \
        *a = static_cast<T>(o | v);                                                                              \
        return o;                                                                                                \
    }                                                                                                            \
    T __tsan_atomic##N##_fetch_xor(volatile T* a, T v, int)                                                      \
    {                                                                                                            \
        T o = *a;                                                                                                \
        *a = static_cast<T>(o ^ v);                                                                              \
        return o;                                                                                                \
    }                                                                                                            \
    int __tsan_atomic##N##_compare_exchange_strong(volatile T* a, T* c, T v, int, int)                           \
    {                                                                                                            \
        if (*a == *c)                                                                                            \
        {                                                                                                        \
            *a = v;                                                                                              \
            return 1;                                                                                            \
        }                                                                                                        \
        *c = *a;                                                                                                 \
        return 0;                                                                                                \
    }                                                                                                            \
    int __tsan_atomic##N##_compare_exchange_weak(volatile T* a, T* c, T v, int mo, int fmo)                      \
    {                                                                                                            \
        return __tsan_atomic##N##_compare_exchange_strong(a, c, v, mo, fmo);                                     \
    }
    MC_ATOMIC(8, unsigned char)
    MC_ATOMIC(16, unsigned short)
    MC_ATOMIC(32, unsigned int)
    MC_ATOMIC(64, unsigned long)
    void __tsan_atomic_thread_fence(int)
    {
    }
    void __tsan_atomic_signal_fence(int)
    {
    }
}

// Allocation: memory handed back to the allocator loses its access history, otherwise the
// next owner of the same address would appear to race with the previous one.
void* operator new(std::size_t n)
{
    void* p = std::malloc(n ? n : 1);
    if (!p)
        throw std::bad_alloc();
    return p;
}
void* operator new[](std::size_t n)
{
    return operator new(n);
}
void operator delete(void* p) noexcept
{
    if (!p)
        return;
    if (mc::in_execution())
        mc::forget_range(p, malloc_usable_size(p));
    std::free(p);
}
void operator delete[](void* p) noexcept
{
    operator delete(p);
}
void operator delete(void* p, std::size_t) noexcept
{
    operator delete(p);
}
void operator delete[](void* p, std::size_t) noexcept
{
    operator delete(p);
}
