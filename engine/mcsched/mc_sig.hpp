// Shared by the instrumented MCSCHED harnesses (C10 mc_flow, C11 mc_poolseq): turns an
// execution result into mechanism signatures; program counters of racing accesses are
// symbolised to the first source line inside the library (addr2line -i on this binary).
#pragma once
#include "common.hpp"
#include "mc_rt.hpp"

#include <map>
#include <set>
#include <string>
#include <unistd.h>
#include <vector>

namespace mcsig
{
    using sse::split;
    // ------------------------------------------------------------------ symbolisation
    inline std::map<std::string, std::string>& sym_cache()
    {
        static std::map<std::string, std::string> c;
        return c;
    }
    // first source line inside the library for a program counter (inlined frames included)
    inline std::string lib_line(const std::string& pc)
    {
        auto it = sym_cache().find(pc);
        if (it != sym_cache().end())
            return it->second;
        std::string res = "unknown";
        char exe[512];
        ssize_t n = readlink("/proc/self/exe", exe, sizeof exe - 1);
        if (n > 0 && pc != "(nil)")
        {
            exe[n] = 0;
            // the return address points after the call: step back one byte
            unsigned long long v = std::strtoull(pc.c_str(), nullptr, 16);
            char cmd[1024];
            std::snprintf(cmd, sizeof cmd, "addr2line -i -e %s 0x%llx 2>/dev/null", exe, v - 1);
            FILE* p = popen(cmd, "r");
            if (p)
            {
                char line[2048];
                std::string first, lib;
                while (fgets(line, sizeof line, p))
                {
                    std::string l = line;
                    while (!l.empty() && (l.back() == '\n' || l.back() == ' '))
                        l.pop_back();
                    auto dpos = l.find(" (discriminator");
                    if (dpos != std::string::npos)
                        l = l.substr(0, dpos);
                    if (first.empty())
                        first = l;
                    auto pos = l.find("include/fastscapelib/");
                    if (pos != std::string::npos && lib.empty())
                        lib = l.substr(pos + 8);
                }
                pclose(p);
                if (!lib.empty())
                    res = lib;
                else if (!first.empty())
                {
                    auto slash = first.rfind('/');
                    res = "outside-library:" + (slash == std::string::npos ? first : first.substr(slash + 1));
                }
            }
        }
        sym_cache()[pc] = res;
        return res;
    }

    inline std::vector<std::string> signatures(const mc::Result& r)
    {
        std::vector<std::string> out;
        if (r.verdict == "HANG")
        {
            std::vector<std::string> parts;
            for (auto& tok : split(r.detail, ' '))
            {
                if (tok.empty())
                    continue;
                auto h = tok.find('#');
                parts.push_back(h == std::string::npos ? tok : tok.substr(0, h));
            }
            std::sort(parts.begin(), parts.end());
            parts.erase(std::unique(parts.begin(), parts.end()), parts.end());
            std::string s = "hang";
            for (auto& p : parts)
                if (p.find("done") == std::string::npos)
                    s += "/" + p;
            out.push_back(s);
        }
        else if (r.verdict == "ASSERT")
            out.push_back("assert/" + r.detail);
        else if (r.verdict == "HORIZON")
            out.push_back("livelock-or-horizon");
        else if (r.verdict == "WATCHDOG")
            out.push_back("unhooked-spin-or-watchdog");
        else if (r.verdict == "SIGNAL")
            out.push_back("crash/signal-" + r.detail);  // abort (libstdc++ assertion), segmentation fault ...
        else if (r.verdict != "OK" && r.verdict != "RACE")
            out.push_back("harness/" + r.verdict + "/" + r.detail);
        std::set<std::string> seen;
        for (auto& rc : r.races)
        {
            auto f = split(rc, '|');  // kind|label|pc|other label|other pc|ctx|other ctx
            if (f.size() < 5)
                continue;
            // attribute an access inside a standard-library helper to the innermost
            // library call site on the accessing thread's call stack
            auto attribute = [&](const std::string& pc, const std::string& ctxs)
            {
                std::string l = lib_line(pc);
                if (l.rfind("fastscapelib/", 0) == 0)
                    return l;
                for (auto& c : split(ctxs, ','))
                {
                    std::string m = lib_line(c);
                    if (m.rfind("fastscapelib/", 0) == 0)
                        return m + "(via-std)";
                }
                return l;
            };
            std::string a = attribute(f[2], f.size() > 5 ? f[5] : ""), b2 = attribute(f[4], f.size() > 6 ? f[6] : "");
            if (b2 < a)
                std::swap(a, b2);
            std::string sg = "race/" + a + "/vs/" + b2;
            if (seen.insert(sg).second)
                out.push_back(sg);
        }
        return out;
    }

}
