// MCSCHED runtime interface: a cooperative scheduler that serialises all threads of one
// execution at their synchronisation operations, a model of the synchronisation state,
// and a vector-clock happens-before race detector.  The implementation (mc_rt.cpp) is
// compiled WITHOUT any sanitizer instrumentation and owns all shim storage.
#pragma once
#include <cstddef>
#include <cstdint>
#include <functional>
#include <string>
#include <vector>

namespace mc
{
    enum Kind
    {
        K_LOAD,
        K_STORE,
        K_RMW,
        K_LOCK,
        K_UNLOCK,
        K_WAIT,
        K_REACQ,
        K_NOTIFY,
        K_SPAWN,
        K_JOIN,
        K_EXIT,
        K_START
    };
    enum MemOrder  // mirrors std::memory_order numerically
    {
        MO_RELAXED = 0,
        MO_CONSUME = 1,
        MO_ACQUIRE = 2,
        MO_RELEASE = 3,
        MO_ACQ_REL = 4,
        MO_SEQ_CST = 5
    };

    // ---- objects (atomics, mutexes, condition variables) are numbered in creation order
    int new_object(std::uint64_t initial = 0);

    // ---- operations issued by the shims; each one is a scheduling point
    std::uint64_t atomic_load(int obj, int mo);
    void atomic_store(int obj, std::uint64_t v, int mo);
    std::uint64_t atomic_rmw_add(int obj, std::int64_t delta, int mo);  // returns the new value
    std::uint64_t atomic_exchange(int obj, std::uint64_t v, int mo);    // returns the old value
    void mutex_lock(int obj);
    void mutex_unlock(int obj);
    void cv_wait(int cv, int mtx);
    void cv_notify(int cv, bool all);
    int thread_spawn(std::function<void()> body);
    void thread_join(int tid);

    // ---- plain (non-atomic) accesses: explicit events from harness code, or forwarded from
    // the compiler instrumentation (__tsan_read/write*) in the C10 build
    // `key` (if non-zero) replaces the address in the state hash, so that the hash does not
    // depend on where the allocator happened to place the datum in this execution
    void data_read(const void* addr, const char* label = nullptr, const void* pc = nullptr, std::uint64_t key = 0);
    void data_write(const void* addr, const char* label = nullptr, const void* pc = nullptr, std::uint64_t key = 0);
    void forget_range(const void* addr, std::size_t size);  // memory (re)allocated or freed
    // innermost call sites of the running thread (maintained by the instrumentation
    // callbacks); recorded with every access so that a race inside a standard-library
    // helper can be attributed to the library line that called it
    void set_call_context(const void* c0, const void* c1, const void* c2);

    // ---- scenario side
    void note(const std::string& key);            // folded into the state hash (scenario position)
    void hash_extra(const void* p, std::size_t n);  // harness data folded into the state hash
    [[noreturn]] void finish_ok();
    [[noreturn]] void fail(const char* verdict, const std::string& detail);
    bool in_execution();
    int current_thread();
    bool instrumentation_enabled();
    void set_instrumentation(bool on);

    // ---- explorer side (runs in the parent process)
    struct ChoicePoint
    {
        std::uint8_t n = 0, me_enabled = 0, chosen = 0;
        std::uint64_t state = 0;
    };
    struct Result
    {
        std::string verdict, detail;
        long steps = 0;
        std::vector<ChoicePoint> cps;
        std::vector<std::string> races;  // distinct data races seen in this execution
        std::vector<std::string> trace;  // filled only when tracing is requested
    };
    struct ExecOptions
    {
        std::vector<int> prefix;
        bool trace = false;
        int spurious_budget = 0;
        int horizon = 20000;
        int watchdog_s = 20;
    };
    // Fork a child, run `scenario` under the scheduler following `opt.prefix`, return what
    // it reported.  `fd_out` variant lets the caller multiplex many children.
    int spawn_execution(const std::function<void()>& scenario, const ExecOptions& opt, int* pid_out);
    bool parse_result(const std::string& raw, int wait_status, Result& r);
}
