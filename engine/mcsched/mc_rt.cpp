// MCSCHED runtime (see mc_rt.hpp).  Compiled without sanitizer instrumentation.
#include "mc_rt.hpp"

#include <algorithm>
#include <atomic>
#include <cstdio>
#include <cstdlib>
#include <cstring>
#include <map>
#include <set>
#include <thread>
#include <unordered_map>
#include <execinfo.h>
#include <linux/futex.h>
#include <signal.h>
#include <sys/syscall.h>
#include <sys/wait.h>
#include <unistd.h>

namespace mc
{
    namespace
    {
        constexpr int MAXT = 20;
        const char* kind_name[] = { "load", "store", "rmw", "lock", "unlock", "wait", "reacq", "notify", "spawn", "join", "exit", "start" };

        struct VC
        {
            std::uint32_t c[MAXT] = { 0 };
            void join(const VC& o)
            {
                for (int i = 0; i < MAXT; ++i)
                    if (o.c[i] > c[i])
                        c[i] = o.c[i];
            }
        };
        struct Thr
        {
            int id = 0;
            std::thread real;
            int go = 0;
            bool finished = false, spin = false, notified = false;
            Kind pk = K_START;
            int pobj = -1, parg = -1;
            std::uint64_t pctx = 0;
            std::vector<std::pair<std::uint64_t, int>> streak;  // (call context, object) loads since last non-load
            VC vc;
            std::function<void()> body;
        };
        struct Obj
        {
            std::uint64_t val = 0;
            int owner = -1;
            std::vector<int> waiters;
            VC L;  // release clock (atomics: last release store / RMW chain; mutex: last unlock)
        };
        struct Shadow
        {
            int wt = -1;
            std::uint32_t wc = 0;
            const void* wpc = nullptr;
            const char* wlabel = nullptr;
            std::uint32_t r[MAXT] = { 0 };
            const void* rpc = nullptr;
            const char* rlabel = nullptr;
            std::uint64_t key = 0;
            const void* wctx[3] = { nullptr, nullptr, nullptr };
            const void* rctx[3] = { nullptr, nullptr, nullptr };
        };
        const void* cur_ctx[3] = { nullptr, nullptr, nullptr };

        std::vector<Thr*> T;
        std::vector<Obj> O;
        int cur = 0;
        bool active = false;
        bool instr = true;
        // Set while runtime code runs.  Template code shared with the instrumented harness
        // (std::vector, std::string ...) may be linked to the *instrumented* instance, so
        // the runtime's own memory accesses would otherwise be fed back into the detector.
        thread_local int in_rt = 0;
        // identity of the calling OS thread in the model (-1: not a modelled thread, or one
        // that has already handed over for the last time).  Plain-access events and
        // allocator notifications are accepted only from the thread that holds the
        // scheduler token: an exited thread still frees its std::thread state, concurrently
        // with whoever runs next, and must not touch the detector's tables then.
        thread_local int tl_tid = -1;
        struct RtGuard
        {
            RtGuard()
            {
                ++in_rt;
            }
            ~RtGuard()
            {
                --in_rt;
            }
        };
        ExecOptions opt;
        std::size_t ppos = 0;
        std::vector<ChoicePoint> cps;
        long steps = 0;
        int outfd = -1;
        int spin_release_left = 3;
        int spurious_left = 0;
        std::uint64_t notes_hash = 1469598103934665603ull;
        std::uint64_t extra_hash = 0;
        std::uint64_t shadow_hash = 0;
        // shadow memory: 8-byte granules, each holding the (few) distinct access addresses in it
        struct Granule
        {
            std::vector<std::pair<std::uint8_t, Shadow>> e;
        };
        std::unordered_map<std::uintptr_t, Granule> shadow;
        bool shadow_busy = false;  // re-entrancy guard (operator delete -> forget_range)
        Shadow& shadow_at(std::uintptr_t a)
        {
            Granule& g = shadow[a >> 3];
            std::uint8_t off = static_cast<std::uint8_t>(a & 7);
            for (auto& p : g.e)
                if (p.first == off)
                    return p.second;
            g.e.push_back({ off, Shadow() });
            return g.e.back().second;
        }
        std::vector<std::string> races;  // distinct descriptions
        std::set<std::string> race_keys;
        std::vector<std::string> trace;

        inline void fnv(std::uint64_t& h, const void* p, std::size_t n)
        {
            const unsigned char* c = static_cast<const unsigned char*>(p);
            for (std::size_t i = 0; i < n; ++i)
            {
                h ^= c[i];
                h *= 1099511628211ull;
            }
        }
        template <class X>
        inline void fnv_pod(std::uint64_t& h, const X& x)
        {
            fnv(h, &x, sizeof(X));
        }

        void fwait(int* a)
        {
            while (__atomic_load_n(a, __ATOMIC_ACQUIRE) == 0)
                syscall(SYS_futex, a, FUTEX_WAIT, 0, nullptr, nullptr, 0);
            __atomic_store_n(a, 0, __ATOMIC_RELAXED);
        }
        void fwake(int* a)
        {
            __atomic_store_n(a, 1, __ATOMIC_RELEASE);
            syscall(SYS_futex, a, FUTEX_WAKE, 1, nullptr, nullptr, 0);
        }

        [[noreturn]] void emit(const char* verdict, const std::string& detail)
        {
            std::string s = std::string("V ") + verdict + "\nD ";
            for (char ch : detail)
                s += ch == '\n' ? ' ' : ch;
            s += "\nS " + std::to_string(steps) + "\nC ";
            char buf[64];
            for (auto& c : cps)
            {
                std::snprintf(buf, sizeof buf, "%u,%u,%u,%llx;", c.n, c.me_enabled, c.chosen, static_cast<unsigned long long>(c.state));
                s += buf;
            }
            s += "\n";
            for (auto& r : races)
                s += "R " + r + "\n";
            for (auto& t : trace)
                s += "T " + t + "\n";
            s += "E\n";
            std::size_t off = 0;
            while (off < s.size())
            {
                ssize_t w = write(outfd, s.data() + off, s.size() - off);
                if (w <= 0)
                    break;
                off += static_cast<std::size_t>(w);
            }
            _exit(0);
        }

        bool enabled(const Thr* t)
        {
            if (t->finished || t->spin)
                return false;
            switch (t->pk)
            {
                case K_LOCK:
                    return O[static_cast<std::size_t>(t->pobj)].owner < 0;
                case K_REACQ:
                    return t->notified && O[static_cast<std::size_t>(t->parg)].owner < 0;
                case K_JOIN:
                    return T[static_cast<std::size_t>(t->pobj)]->finished;
                default:
                    return true;
            }
        }

        std::string describe()
        {
            std::string d;
            for (auto t : T)
            {
                d += (t->id == 0 ? "caller:" : "worker:");
                if (t->finished)
                    d += "done";
                else
                {
                    d += kind_name[t->pk];
                    if (t->spin)
                        d += "(spinning)";
                    if (t->pk == K_REACQ)
                        d += t->notified ? "(notified)" : "(cv-wait-not-notified)";
                    if (t->pk == K_LOCK)
                        d += "(mutex-held-by-T" + std::to_string(O[static_cast<std::size_t>(t->pobj)].owner) + ")";
                    if (t->pk == K_JOIN)
                        d += "(target-running)";
                    d += "#" + std::to_string(t->pobj);
                }
                d += " ";
            }
            if (opt.spurious_budget > spurious_left)
                d += "env:after-spurious-wakeup ";
            return d;
        }

        std::uint64_t state_hash()
        {
            std::uint64_t h = 1469598103934665603ull;
            for (auto& o : O)
            {
                fnv_pod(h, o.val);
                fnv_pod(h, o.owner);
                {
                    // arrival order of waiters is not observable (notify_one wakes the lowest id)
                    std::vector<int> ws(o.waiters);
                    std::sort(ws.begin(), ws.end());
                    for (int w : ws)
                        fnv_pod(h, w);
                }
                int sep = -7;
                fnv_pod(h, sep);
                fnv(h, o.L.c, sizeof o.L.c);
            }
            for (auto t : T)
            {
                fnv_pod(h, t->finished);
                fnv_pod(h, t->spin);
                fnv_pod(h, t->notified);
                int k = t->pk;
                fnv_pod(h, k);
                fnv_pod(h, t->pobj);
                fnv_pod(h, t->parg);
                fnv_pod(h, t->pctx);
                for (auto& s : t->streak)
                {
                    fnv_pod(h, s.first);
                    fnv_pod(h, s.second);
                }
                fnv(h, t->vc.c, sizeof t->vc.c);
            }
            fnv_pod(h, cur);
            fnv_pod(h, notes_hash);
            fnv_pod(h, extra_hash);
            fnv_pod(h, shadow_hash);
            fnv_pod(h, spurious_left);
            return h;
        }

        // The running thread has set its pending operation; returns when it is chosen.
        void schedule()
        {
            Thr* me = T[static_cast<std::size_t>(cur)];
            if (++steps > opt.horizon)
                emit("HORIZON", describe());
            for (;;)
            {
                std::vector<int> E;
                bool me_en = enabled(me);
                if (me_en)
                    E.push_back(me->id);
                for (auto t : T)
                    if (t != me && enabled(t))
                        E.push_back(t->id);
                if (E.empty())
                {
                    bool all = true, anyspin = false;
                    for (auto t : T)
                    {
                        if (!t->finished)
                            all = false;
                        if (!t->finished && t->spin)
                            anyspin = true;
                    }
                    if (all)
                        emit("OK", "");
                    if (anyspin && spin_release_left > 0)
                    {
                        // safety net of the spin rule: let pollers re-read a few times; a
                        // terminating re-read escapes, a genuine poll comes back here
                        --spin_release_left;
                        for (auto t : T)
                            if (t->spin)
                            {
                                t->spin = false;
                                t->streak.clear();
                            }
                        continue;
                    }
                    emit("HANG", describe());
                }
                int pick = 0;
                if (E.size() > 1)
                {
                    if (ppos < opt.prefix.size())
                    {
                        pick = opt.prefix[ppos++];
                        if (pick < 0 || pick >= static_cast<int>(E.size()))
                            emit("DIVERGE", "prefix choice out of range at choice point " + std::to_string(cps.size()));
                    }
                    ChoicePoint cp;
                    cp.n = static_cast<std::uint8_t>(E.size());
                    cp.me_enabled = me_en ? 1 : 0;
                    cp.chosen = static_cast<std::uint8_t>(pick);
                    cp.state = state_hash();
                    cps.push_back(cp);
                }
                int nxt = E[static_cast<std::size_t>(pick)];
                if (nxt != me->id)
                {
                    cur = nxt;
                    fwake(&T[static_cast<std::size_t>(nxt)]->go);
                    if (me->finished)
                        return;
                    fwait(&me->go);
                }
                return;
            }
        }

        std::uint64_t call_context()
        {
            void* b[12];
            int n = backtrace(b, 12);
            std::uint64_t h = 1469598103934665603ull;
            for (int i = 0; i < n; ++i)
                fnv_pod(h, b[i]);
            return h;
        }

        void progress_event()
        {
            spin_release_left = 3;
        }

        void wake_streaks(int obj, int self)
        {
            for (auto t : T)
            {
                if (t->id == self)
                    continue;
                bool hit = false;
                for (auto& p : t->streak)
                    if (p.second == obj)
                        hit = true;
                if (hit)
                {
                    t->streak.clear();
                    t->spin = false;
                }
            }
        }

        // announce the pending operation, wait to be scheduled
        Thr* point(Kind k, int obj, int arg = -1)
        {
            Thr* me = T[static_cast<std::size_t>(cur)];
            me->pk = k;
            me->pobj = obj;
            me->parg = arg;
            std::uint64_t cx = 0;
            if (k == K_LOAD)
            {
                cx = call_context();
                for (auto& s : me->streak)
                    if (s.first == cx && s.second == obj)
                        me->spin = true;
            }
            me->pctx = cx;
            schedule();
            me = T[static_cast<std::size_t>(cur)];
            if (opt.trace)
                trace.push_back("T" + std::to_string(me->id) + " " + kind_name[k] + " #" + std::to_string(obj));
            if (k == K_LOAD)
                me->streak.push_back({ cx, obj });
            else
                me->streak.clear();
            return me;
        }

        bool acq(int m)
        {
            return m == MO_ACQUIRE || m == MO_ACQ_REL || m == MO_SEQ_CST || m == MO_CONSUME;
        }
        bool rel(int m)
        {
            return m == MO_RELEASE || m == MO_ACQ_REL || m == MO_SEQ_CST;
        }

        std::uint64_t shadow_entry_hash(std::uintptr_t a, const Shadow& s)
        {
            std::uint64_t h = 1469598103934665603ull;
            if (s.key)
                fnv_pod(h, s.key);
            else
                fnv_pod(h, a);
            fnv_pod(h, s.wt);
            fnv_pod(h, s.wc);
            fnv(h, s.r, sizeof s.r);
            return h;
        }

        void report_race(const char* kind, const Shadow& s, const char* label, const void* pc, const char* olabel, const void* opc,
                         const void* const* octx)
        {
            char buf[512];
            std::snprintf(buf, sizeof buf, "%s|%s|%p|%s|%p|%p,%p,%p|%p,%p,%p", kind, label ? label : "", pc, olabel ? olabel : "", opc,
                          cur_ctx[0], cur_ctx[1], cur_ctx[2], octx[0], octx[1], octx[2]);
            (void) s;
            char key[128];
            std::snprintf(key, sizeof key, "%s|%p|%p|%s|%s", kind, pc, opc, label ? label : "", olabel ? olabel : "");
            if (race_keys.insert(key).second && races.size() < 24)
                races.push_back(buf);
        }
    }

    // ------------------------------------------------------------------ public API
    bool in_execution()
    {
        return active;
    }
    int current_thread()
    {
        return cur;
    }
    bool instrumentation_enabled()
    {
        return active && instr && in_rt == 0;
    }
    void set_instrumentation(bool on)
    {
        instr = on;
    }

    int new_object(std::uint64_t initial)
    {
        RtGuard rt_guard;
        O.emplace_back();
        O.back().val = initial;
        return static_cast<int>(O.size()) - 1;
    }

    std::uint64_t atomic_load(int obj, int mo)
    {
        RtGuard rt_guard;
        if (!active)
            return O[static_cast<std::size_t>(obj)].val;
        Thr* me = point(K_LOAD, obj);
        Obj& o = O[static_cast<std::size_t>(obj)];
        if (acq(mo))
            me->vc.join(o.L);
        return o.val;
    }
    void atomic_store(int obj, std::uint64_t v, int mo)
    {
        RtGuard rt_guard;
        if (!active)
        {
            O[static_cast<std::size_t>(obj)].val = v;
            return;
        }
        Thr* me = point(K_STORE, obj);
        Obj& o = O[static_cast<std::size_t>(obj)];
        ++me->vc.c[me->id];
        if (rel(mo))
            o.L = me->vc;
        else
            o.L = VC();  // a relaxed store heads no release sequence
        o.val = v;
        wake_streaks(obj, me->id);
        progress_event();
    }
    std::uint64_t atomic_rmw_add(int obj, std::int64_t delta, int mo)
    {
        RtGuard rt_guard;
        if (!active)
        {
            O[static_cast<std::size_t>(obj)].val += static_cast<std::uint64_t>(delta);
            return O[static_cast<std::size_t>(obj)].val;
        }
        Thr* me = point(K_RMW, obj);
        Obj& o = O[static_cast<std::size_t>(obj)];
        if (acq(mo))
            me->vc.join(o.L);
        ++me->vc.c[me->id];
        if (rel(mo))
            o.L.join(me->vc);  // an RMW continues the release sequence
        o.val += static_cast<std::uint64_t>(delta);
        wake_streaks(obj, me->id);
        progress_event();
        return o.val;
    }
    std::uint64_t atomic_exchange(int obj, std::uint64_t v, int mo)
    {
        RtGuard rt_guard;
        if (!active)
        {
            std::uint64_t old = O[static_cast<std::size_t>(obj)].val;
            O[static_cast<std::size_t>(obj)].val = v;
            return old;
        }
        Thr* me = point(K_RMW, obj);
        Obj& o = O[static_cast<std::size_t>(obj)];
        if (acq(mo))
            me->vc.join(o.L);
        ++me->vc.c[me->id];
        if (rel(mo))
            o.L.join(me->vc);
        std::uint64_t old = o.val;
        o.val = v;
        wake_streaks(obj, me->id);
        progress_event();
        return old;
    }
    void mutex_lock(int obj)
    {
        RtGuard rt_guard;
        if (!active)
            return;
        Thr* me = point(K_LOCK, obj);
        Obj& o = O[static_cast<std::size_t>(obj)];
        o.owner = me->id;
        me->vc.join(o.L);
    }
    void mutex_unlock(int obj)
    {
        RtGuard rt_guard;
        if (!active)
            return;
        Thr* me = point(K_UNLOCK, obj);
        Obj& o = O[static_cast<std::size_t>(obj)];
        ++me->vc.c[me->id];
        o.L = me->vc;
        o.owner = -1;
        progress_event();
    }
    void cv_wait(int cv, int mtx)
    {
        RtGuard rt_guard;
        if (!active)
            fail("ASSERT", "condition_variable::wait outside an execution");
        Thr* me = point(K_WAIT, cv, mtx);
        Obj& m = O[static_cast<std::size_t>(mtx)];
        ++me->vc.c[me->id];
        m.L = me->vc;
        m.owner = -1;
        O[static_cast<std::size_t>(cv)].waiters.push_back(me->id);
        me->notified = false;
        if (spurious_left > 0)
        {
            // environment deviation: this wait may return without a notification
            --spurious_left;
            me->notified = true;
            auto& w = O[static_cast<std::size_t>(cv)].waiters;
            w.erase(std::remove(w.begin(), w.end(), me->id), w.end());
        }
        progress_event();
        me = point(K_REACQ, cv, mtx);
        Obj& m2 = O[static_cast<std::size_t>(mtx)];
        m2.owner = me->id;
        me->vc.join(m2.L);
    }
    void cv_notify(int cv, bool all)
    {
        RtGuard rt_guard;
        if (!active)
            return;
        point(K_NOTIFY, cv);
        auto& w = O[static_cast<std::size_t>(cv)].waiters;
        if (all)
        {
            for (int t : w)
                T[static_cast<std::size_t>(t)]->notified = true;
            w.clear();
        }
        else if (!w.empty())
        {
            auto it = std::min_element(w.begin(), w.end());
            T[static_cast<std::size_t>(*it)]->notified = true;
            w.erase(it);
        }
        progress_event();
    }
    int thread_spawn(std::function<void()> body)
    {
        RtGuard rt_guard;
        if (!active)
            fail("ASSERT", "thread created outside an execution");
        Thr* me = point(K_SPAWN, -1);
        if (static_cast<int>(T.size()) >= MAXT)
            fail("ASSERT", "too many threads for the scheduler");
        Thr* t = new Thr;
        t->id = static_cast<int>(T.size());
        t->vc = me->vc;
        ++me->vc.c[me->id];
        t->body = std::move(body);
        T.push_back(t);
        t->real = std::thread(
            [t]()
            {
                fwait(&t->go);
                tl_tid = t->id;
                t->body();
                t->pk = K_EXIT;
                t->finished = true;
                ++t->vc.c[t->id];
                progress_event();
                tl_tid = -1;
                schedule();
            });
        progress_event();
        return t->id;
    }
    void thread_join(int tid)
    {
        RtGuard rt_guard;
        if (!active)
            return;
        Thr* me = point(K_JOIN, tid);
        Thr* t = T[static_cast<std::size_t>(tid)];
        me->vc.join(t->vc);
        t->real.join();
    }

    void data_write(const void* addr, const char* label, const void* pc, std::uint64_t key)
    {
        RtGuard rt_guard;
        if (!active || tl_tid != cur)
            return;
        Thr* me = T[static_cast<std::size_t>(cur)];
        std::uintptr_t a = reinterpret_cast<std::uintptr_t>(addr);
        shadow_busy = true;
        Shadow& s = shadow_at(a);
        shadow_busy = false;
        shadow_hash ^= shadow_entry_hash(a, s);
        s.key = key;
        if (s.wt >= 0 && s.wt != me->id && s.wc > me->vc.c[s.wt])
            report_race("write-after-write", s, label, pc, s.wlabel, s.wpc, s.wctx);
        for (int i = 0; i < MAXT; ++i)
            if (i != me->id && s.r[i] > me->vc.c[i])
            {
                report_race("write-after-read", s, label, pc, s.rlabel, s.rpc, s.rctx);
                break;
            }
        s.wt = me->id;
        s.wc = ++me->vc.c[me->id];
        s.wpc = pc;
        s.wlabel = label;
        s.wctx[0] = cur_ctx[0];
        s.wctx[1] = cur_ctx[1];
        s.wctx[2] = cur_ctx[2];
        std::memset(s.r, 0, sizeof s.r);
        shadow_hash ^= shadow_entry_hash(a, s);
    }
    void data_read(const void* addr, const char* label, const void* pc, std::uint64_t key)
    {
        RtGuard rt_guard;
        if (!active || tl_tid != cur)
            return;
        Thr* me = T[static_cast<std::size_t>(cur)];
        std::uintptr_t a = reinterpret_cast<std::uintptr_t>(addr);
        shadow_busy = true;
        Shadow& s = shadow_at(a);
        shadow_busy = false;
        shadow_hash ^= shadow_entry_hash(a, s);
        s.key = key;
        if (s.wt >= 0 && s.wt != me->id && s.wc > me->vc.c[s.wt])
            report_race("read-after-write", s, label, pc, s.wlabel, s.wpc, s.wctx);
        // a read is an event of its own; bump the clock so later writers can be ordered
        s.r[me->id] = ++me->vc.c[me->id];
        s.rpc = pc;
        s.rlabel = label;
        s.rctx[0] = cur_ctx[0];
        s.rctx[1] = cur_ctx[1];
        s.rctx[2] = cur_ctx[2];
        shadow_hash ^= shadow_entry_hash(a, s);
    }
    void forget_range(const void* addr, std::size_t size)
    {
        RtGuard rt_guard;
        if (!active || tl_tid != cur || shadow_busy || shadow.empty() || size == 0)
            return;
        shadow_busy = true;
        std::uintptr_t a = reinterpret_cast<std::uintptr_t>(addr);
        std::uintptr_t g0 = a >> 3, g1 = (a + size - 1) >> 3;
        auto drop = [&](std::unordered_map<std::uintptr_t, Granule>::iterator it)
        {
            for (auto& p : it->second.e)
                shadow_hash ^= shadow_entry_hash((it->first << 3) + p.first, p.second);
            return shadow.erase(it);
        };
        if (g1 - g0 > shadow.size())
        {
            for (auto it = shadow.begin(); it != shadow.end();)
            {
                if (it->first >= g0 && it->first <= g1)
                    it = drop(it);
                else
                    ++it;
            }
        }
        else
            for (std::uintptr_t g = g0; g <= g1; ++g)
            {
                auto it = shadow.find(g);
                if (it != shadow.end())
                    drop(it);
            }
        shadow_busy = false;
    }

    void set_call_context(const void* c0, const void* c1, const void* c2)
    {
        cur_ctx[0] = c0;
        cur_ctx[1] = c1;
        cur_ctx[2] = c2;
    }
    void note(const std::string& key)
    {
        RtGuard rt_guard;
        fnv(notes_hash, key.data(), key.size());
        if (opt.trace)
            trace.push_back("-- " + key);
    }
    void hash_extra(const void* p, std::size_t n)
    {
        RtGuard rt_guard;
        std::uint64_t h = 1469598103934665603ull;
        fnv(h, p, n);
        extra_hash = h;
    }
    void finish_ok()
    {
        RtGuard rt_guard;
        if (!races.empty())
            emit("RACE", races.front());
        emit("OK", "");
    }
    void fail(const char* verdict, const std::string& detail)
    {
        RtGuard rt_guard;
        if (outfd < 0)
        {
            std::fprintf(stderr, "mc::fail outside an execution: %s %s\n", verdict, detail.c_str());
            std::abort();
        }
        emit(verdict, detail);
    }

    // ------------------------------------------------------------------ explorer side
    int spawn_execution(const std::function<void()>& scenario, const ExecOptions& o, int* pid_out)
    {
        int fd[2];
        if (pipe(fd) != 0)
            return -1;
        pid_t p = fork();
        if (p < 0)
        {
            close(fd[0]);
            close(fd[1]);
            return -1;
        }
        if (p == 0)
        {
            close(fd[0]);
            outfd = fd[1];
            opt = o;
            spurious_left = o.spurious_budget;
            Thr* t0 = new Thr;
            t0->id = 0;
            T.push_back(t0);
            cur = 0;
            tl_tid = 0;
            active = true;
            alarm(static_cast<unsigned>(o.watchdog_s));
            scenario();
            finish_ok();
        }
        close(fd[1]);
        if (pid_out)
            *pid_out = p;
        return fd[0];
    }

    bool parse_result(const std::string& raw, int st, Result& r)
    {
        r = Result();
        if (raw.size() < 2 || raw.find("\nE\n") == std::string::npos)
        {
            r.verdict = WIFSIGNALED(st) ? (WTERMSIG(st) == SIGALRM ? "WATCHDOG" : "SIGNAL") : "EMPTY";
            r.detail = WIFSIGNALED(st) ? std::to_string(WTERMSIG(st)) : ("exit " + std::to_string(WIFEXITED(st) ? WEXITSTATUS(st) : -1));
            return false;
        }
        std::size_t pos = 0;
        while (pos < raw.size())
        {
            std::size_t e = raw.find('\n', pos);
            if (e == std::string::npos)
                e = raw.size();
            std::string line = raw.substr(pos, e - pos);
            pos = e + 1;
            if (line.size() < 1)
                continue;
            char tag = line[0];
            std::string body = line.size() > 2 ? line.substr(2) : "";
            if (tag == 'V')
                r.verdict = body;
            else if (tag == 'D')
                r.detail = body;
            else if (tag == 'S')
                r.steps = std::atol(body.c_str());
            else if (tag == 'C')
            {
                std::size_t q = 0;
                while (q < body.size())
                {
                    unsigned a, b, c;
                    unsigned long long h;
                    int used = 0;
                    if (std::sscanf(body.c_str() + q, "%u,%u,%u,%llx;%n", &a, &b, &c, &h, &used) < 4 || used == 0)
                        break;
                    ChoicePoint cp;
                    cp.n = static_cast<std::uint8_t>(a);
                    cp.me_enabled = static_cast<std::uint8_t>(b);
                    cp.chosen = static_cast<std::uint8_t>(c);
                    cp.state = h;
                    r.cps.push_back(cp);
                    q += static_cast<std::size_t>(used);
                }
            }
            else if (tag == 'R')
                r.races.push_back(body);
            else if (tag == 'T')
                r.trace.push_back(body);
        }
        return true;
    }
}
