"""Table of checks: which harness binaries decide which property, evidence texts, bounds."""

FLOW_ASSUME = [
    "bounded scope: grids of at most 9 nodes (quick) / 16 nodes (thorough); elevation = every "
    "function nodes -> {0..k-1} (k = 3, thorough also k = 4 on 3x3 and k = 2 on 4x4) mapped "
    "through the listed value maps (plain, negative/zero, sub-normal steps, one-ulp steps, "
    "extreme magnitudes, strictly positive); masks / base-level sets within the stated "
    "deviation bound (all masks x all base sets on grids of <= 4 nodes)",
    "worlds without any unmasked base level are outside the domain and are counted as skipped",
    "the reference geometry (offsets + modular wrap on looped axes, triangle edges on meshes) "
    "is bound to the library by the C07 / C18 checks",
    "each world runs on a freshly constructed flow_graph on the real headers; no sampling",
]

FLOW_BOUNDS = {
    "quick": {"grids": "profile 2..6, raster 2x2 2x3 3x2 3x3 (rook/queen/bishop), 9-node meshes",
              "levels": "3", "deviations": "<=1 (all masks x all base sets on <=4 nodes)"},
    "thorough": {"grids": "+ profile 8 and 16, raster 3x4 4x3 4x4 2x4, 17 meshes",
                 "levels": "3 (4 on 3x3, 2 on 4x4 and profile 16)", "deviations": "<=2"},
}


def flow(rule, extra_assume=()):
    return {
        "harnesses": [{"name": "flow", "families": True}],
        "rule": rule,
        "assumptions": FLOW_ASSUME + list(extra_assume),
        "bounds": FLOW_BOUNDS,
        "deadline": {"quick": 600, "thorough": 3000},
    }


PROPERTIES = {
    "C01": flow("worlds = grid config x mask x base levels x elevation pattern x value map x resolver "
                "program, enumerated exhaustively in odometer order; non-trivial = the resolver changed "
                "at least one elevation; distinct = digest of (returned elevation, receivers, distances, "
                "weights)"),
    "C02": flow("same worlds as C01 restricted to configurations where every unmasked node is connected "
                "to an unmasked base level; oracle = minimax spill level by fixed-point relaxation; "
                "non-trivial = at least one node filled; distinct = digest of returned elevation + receivers"),
    "C03": flow("worlds as C01 over routed graphs with and without resolvers x 7 source fields (4 scalars, "
                "3 arrays); non-trivial = graph has at least one donor link; distinct = digest of the "
                "accumulated field for the mixed-sign array source",
                ["graphs whose partition weights are not finite are attributed to C05 and skipped here"]),
    "C04": flow("worlds as C01 with programs [single] and [pflood, single]; oracle = literal steepest "
                "descent on the reference geometry in double arithmetic; non-trivial = some node has a "
                "receiver other than itself; distinct = digest of receivers/distances"),
    "C05": flow("worlds as C01 with programs ending in the multiple-direction router x exponents, each "
                "graph updated twice with the exponent changed in between; non-trivial = some node has "
                ">= 2 receivers; distinct = digest of receivers/weights",
                ["weights are compared with (slope/slope_max)^p normalised, absolute tolerance 1e-9; "
                 "slopes are evaluated in double as the property states them"]),
    "C06": flow("worlds as C01 with all programs, three successive updates per graph (field, other field, "
                "field); non-trivial = breadth-first order has >= 2 levels; distinct = digest of donors + "
                "both traversal orders + levels"),
    "C19": flow("worlds as C01 with single-direction programs, basins() called after each of three "
                "updates (twice after the last); non-trivial = >= 2 basins; distinct = digest of labels"),
}
