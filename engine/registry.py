"""Table of checks: which harness binaries decide which property, evidence texts, bounds."""

FLOW_ASSUME = [
    "bounded scope: grids of at most 9 nodes (quick) / 16 nodes (thorough); elevation = every "
    "function nodes -> {0..k-1} (k = 3, thorough also k = 4 on 3x3 and k = 2 on 4x4) mapped "
    "through the listed value maps (plain, negative/zero, sub-normal steps, one-ulp steps, "
    "extreme magnitudes, strictly positive); masks / base-level sets within the stated "
    "deviation bound (all masks x all base sets on grids of <= 4 nodes)",
    "worlds without any unmasked base level are outside the domain and are counted as skipped",
    "the reference geometry (offsets + modular wrap on looped axes, triangle edges on meshes) "
    "is bound to the library by the C07 / C18 checks",
    "each world runs on a freshly constructed flow_graph on the real headers; no sampling",
]

FLOW_BOUNDS = {
    "quick": {"grids": "profile 2..6, raster 2x2 2x3 3x2 3x3 (rook/queen/bishop), 9-node meshes",
              "levels": "3", "deviations": "<=1 (all masks x all base sets on <=4 nodes)"},
    "thorough": {"grids": "+ profile 8 and 16, raster 3x4 4x3 4x4 2x4, 17 meshes",
                 "levels": "3 (4 on 3x3, 2 on 4x4 and profile 16)", "deviations": "<=2"},
}


SSE_LEVEL = ("exhaustive small-scope enumeration: every world within the stated bounds is executed on the "
             "real headers and judged by a reference model written from the property statement; "
             "no sampling, no solver")
SSE_TECH = "explicit-state small-scope exhaustive enumeration on the implementation, reference-model oracle"


def flow(rule, extra_assume=()):
    return {
        "engine": "sse",
        "level_text": SSE_LEVEL,
        "level_note": "bounded scope (<= 9 nodes quick, <= 16 thorough; <= 4 elevation levels x 6 value maps); "
                      "reference geometry bound to the library by C07/C18; g++ 12 -O1",
        "technique": SSE_TECH,
        "harnesses": [{"name": "flow", "families": True}],
        "rule": rule,
        "assumptions": FLOW_ASSUME + list(extra_assume),
        "bounds": FLOW_BOUNDS,
        "deadline": {"quick": 600, "thorough": 1200},
    }


PROPERTIES = {
    "C01": flow("worlds = grid config x mask x base levels x elevation pattern x value map x resolver "
                "program, enumerated exhaustively in odometer order; non-trivial = the resolver changed "
                "at least one elevation; distinct = digest of (returned elevation, receivers, distances, "
                "weights)"),
    "C02": flow("same worlds as C01 restricted to configurations where every unmasked node is connected "
                "to an unmasked base level; oracle = minimax spill level by fixed-point relaxation; "
                "non-trivial = at least one node filled; distinct = digest of returned elevation + receivers"),
    "C03": flow("worlds as C01 over routed graphs with and without resolvers x 7 source fields (4 scalars, "
                "3 arrays); non-trivial = graph has at least one donor link; distinct = digest of the "
                "accumulated field for the mixed-sign array source",
                ["graphs whose partition weights are not finite are attributed to C05 and skipped here"]),
    "C04": flow("worlds as C01 with programs [single] and [pflood, single]; oracle = literal steepest "
                "descent on the reference geometry in double arithmetic; non-trivial = some node has a "
                "receiver other than itself; distinct = digest of receivers/distances"),
    "C05": flow("worlds as C01 with programs ending in the multiple-direction router x exponents, each "
                "graph updated twice with the exponent changed in between; non-trivial = some node has "
                ">= 2 receivers; distinct = digest of receivers/weights",
                ["weights are compared with (slope/slope_max)^p normalised, absolute tolerance 1e-9; "
                 "slopes are evaluated in double as the property states them"]),
    "C06": flow("worlds as C01 with all programs, three successive updates per graph (field, other field, "
                "field); non-trivial = breadth-first order has >= 2 levels; distinct = digest of donors + "
                "both traversal orders + levels"),
    "C19": flow("worlds as C01 with single-direction programs, basins() called after each of three "
                "updates (twice after the last); non-trivial = >= 2 basins; distinct = digest of labels"),
}


PROPERTIES["C07"] = {
    "engine": "sse",
    "level_text": "explicit-state breadth-first search over query histories: states = contents of the neighbour "
                  "cache reached by accessor calls, events = (accessor, node); every answer on every transition "
                  "is compared with the reference geometry; cache-on and cache-off grids both explored",
    "level_note": "shapes 2x2..3x3 (quick) / ..4x4 (thorough), all 100 admissible raster border mixes, all "
                  "admissible profile pairs, 2-3 spacings; BFS depth = number of nodes on <= 6-node grids, "
                  "3 (quick) / 5 (thorough) on 3x3; state de-duplicated on the raw cache content",
    "technique": "explicit-state BFS over cache states of the real grid objects, reference-geometry oracle",
    "harnesses": [{"name": "grid"}],
    "rule": "states = distinct raw contents of the neighbour cache (hash of the private table) per grid "
            "configuration, reached by replaying accessor histories on a fresh grid; transitions = accessor "
            "calls judged; non-trivial = a state other than the empty cache; distinct = (configuration, cache content)",
    "assumptions": ["the cache is the only mutable state of a grid (read through -fno-access-control)",
                    "size-2 looped axes list the same neighbour twice: multiset semantics",
                    "spacings from a listed set; shapes bounded"],
    "bounds": {"quick": {"shapes": "profile 2..5, raster 2x2 2x3 3x2 3x3", "depth": "n (<=6 nodes), 3 (3x3)"},
               "thorough": {"shapes": "+ profile 6 8, raster 2x4 4x2 3x4 4x4", "depth": "n (<=6), 5 (3x3), 3 (larger)"}},
    "deadline": {"quick": 600, "thorough": 1200},
}
PROPERTIES["C17"] = {
    "engine": "sse",
    "level_text": SSE_LEVEL,
    "level_note": "all 4^2 / 4^4 border combinations x override maps with <= 2 entries (every node incl. "
                  "out-of-range keys x every status) on the listed shapes; meshes with the three status "
                  "constructors and the two that must be rejected",
    "technique": SSE_TECH,
    "harnesses": [{"name": "grid"}],
    "rule": "worlds = grid constructor arguments (type, shape, 4 border statuses, override map); judged: "
            "throw / no-throw against the documented admissibility rule, status array against the documented "
            "composition, unfiltered and 4 status-filtered iterations forward and reverse, default base levels "
            "of a new flow graph; non-trivial = every world (rejections and acceptances both carry an "
            "expectation); distinct = digest of expected status layout or of the rejected configuration",
    "assumptions": ["override maps have at most 2 entries", "shapes bounded as listed"],
    "bounds": {"quick": {"shapes": "profile 2 3 4; raster 2x2 2x3 3x3"},
               "thorough": {"shapes": "+ profile 6; raster 3x2 3x4 4x4; 2 overrides on 3x3"}},
    "deadline": {"quick": 600, "thorough": 1200},
}
PROPERTIES["C18"] = {
    "engine": "sse",
    "level_text": SSE_LEVEL,
    "level_note": "all 7^4 cell assignments of the 3x3 point lattice (absent / two splits / four single "
                  "triangles per cell) x 3-4 jitter patterns x vertex orders; folded or near-degenerate "
                  "jittered meshes are skipped and counted",
    "technique": SSE_TECH,
    "harnesses": [{"name": "grid"}],
    "rule": "worlds = (cell assignment, jitter, vertex order); oracle = triangle-edge neighbour model, "
            "once-seen-edge boundary model, circumcentric area shares in long double; non-trivial = mesh has "
            ">= 1 triangle; distinct = digest of neighbour counts + reference areas",
    "assumptions": ["meshes are sub-triangulations of a 9-point lattice; coordinates from 4 listed jitters",
                    "areas compared with relative tolerance 1e-11"],
    "bounds": {"quick": {"meshes": "2401 x 3 jitters x 2-6 vertex orders"},
               "thorough": {"meshes": "2401 x 4 jitters x 6 vertex orders"}},
    "deadline": {"quick": 600, "thorough": 1200},
}


HIST_FAMS = ["profile", "queen", "rook", "trimesh"]
PROPERTIES["C09"] = {
    "engine": "sse",
    "level_text": "exhaustive enumeration of call histories on one flow_graph object (every sequence over the "
                  "alphabet update_routes(4 fields) / set_mask(3) / set_base_levels(4) / parameter changes / "
                  "accumulate / basins up to the depth bound, last call an update); after the last call the "
                  "complete observable state is compared bit for bit with a fresh graph given the inputs in "
                  "force, the argument array with its copy, and a repeated call with the first",
    "level_note": "depth 5 (quick) / 6 (thorough); 6 grids (3x3, two 4x4 rasters, cache-less looped 3x3, "
                  "16-node profile, 9-node mesh) x 7 routing strategies; no state merging (every history is "
                  "replayed on a fresh object), so hidden state cannot be abstracted away",
    "technique": "exhaustive bounded-depth enumeration of call histories on the implementation, fresh-object differential oracle",
    "harnesses": [{"name": "hist", "families": HIST_FAMS}],
    "rule": "states = judged histories (distinct event sequences); transitions = library calls replayed; "
            "non-trivial = the judged update is not the first call on the object; distinct = digest of "
            "(final observable state, mask id, base id, program)",
    "assumptions": ["alphabet: 4 fields (two with heavy ties), 3 masks, 4 base-level sets (one with > 13 members, "
                    "one pair congruent modulo 13), exponent {1,2}, both tree methods, both routing methods",
                    "accumulate()/basins() before the first update_routes and updates without an unmasked base "
                    "level are outside the documented domain (skipped, counted)"],
    "bounds": {"quick": {"depth": "5 (4 on the cache-less grid)"}, "thorough": {"depth": "6 (5 on the cache-less grid)"}},
    "deadline": {"quick": 600, "thorough": 1200},
}
PROPERTIES["C16"] = {
    "engine": "sse",
    "level_text": "every valid operator program of length <= 4 containing one or two snapshots, on three grid "
                  "types, over a strided set of 3-level fields x mask / base-level deviations x two successive "
                  "updates; each snapshot is compared bit for bit with a separate graph that runs only the prefix",
    "level_note": "programs over {single, multi, pflood, mst kruskal-carve, mst boruvka-basic, graph snapshot, "
                  "elevation snapshot}; fields = every 331st (quick) / 61st (thorough) of the 3^n order patterns; "
                  "compared: receivers/counts/distances/weights, donors, both traversal orders and levels, "
                  "accumulate(1), basins()/outlets/pits, a kernel application; mutators must throw",
    "technique": "exhaustive program enumeration on the implementation, prefix-graph differential oracle",
    "harnesses": [{"name": "hist", "families": ["profile", "queen", "trimesh"]}],
    "rule": "worlds = (grid, program with snapshots, field pair, mask/base deviation); non-trivial = every judged "
            "snapshot; distinct = digest of the expected (prefix graph) state",
    "assumptions": ["fields are a strided subset of the 3^n patterns (the program space is exhaustive, the "
                    "field space is not)"],
    "bounds": {"quick": {"programs": "all valid of length <= 4 with 1-2 snapshots (522)"},
               "thorough": {"programs": "+ combined graph+elevation snapshots; 6 grids"}},
    "deadline": {"quick": 600, "thorough": 1200},
}
PROPERTIES["C20"] = {
    "engine": "sse",
    "level_text": "all 2800 operator programs of length <= 4 over {single, single(2 threads), multi, pflood, mst, "
                  "graph snapshot, elevation snapshot} on profile / raster / mesh, built at run time through the "
                  "same add_operator the public constructor uses; accept/reject and every declared effect "
                  "compared with a 4-variable reference automaton written from the property statement",
    "level_note": "a fixed set of 10 sequences is also built through the public variadic constructor; programs "
                  "with a parallel router are constructed and inspected but not updated (threads belong to C10/C11)",
    "technique": "exhaustive program enumeration on the implementation against a reference automaton",
    "harnesses": [{"name": "hist", "families": ["profile", "queen", "trimesh"]}],
    "rule": "worlds = (grid type, program); non-trivial = every program (acceptance and rejection both carry an "
            "expectation); distinct = (program, grid type)",
    "assumptions": ["operator kinds limited to the seven listed (+ combined snapshot in thorough)"],
    "bounds": {"quick": {"programs": "7 + 7^2 + 7^3 + 7^4 = 2800, 3 grids"},
               "thorough": {"programs": "8 + 8^2 + 8^3 + 8^4 + 8^5 = 37448, 6 grids"}},
    "deadline": {"quick": 600, "thorough": 1200},
}


PROPERTIES["C15"] = {
    "engine": "sse",
    "level_text": "exhaustive enumeration of single-direction flow graphs (every 3-level field on <= 9-node grids, "
                  "2-level on 16 nodes, every 2-level interior field of a 6x6 raster with 20 outer basins) x masks / "
                  "base levels x both tree methods x Boruvka low-degree thresholds {16, 1, 2, 3}; the real "
                  "basin_graph is rebuilt three times on the same object and compared with a reference pass set "
                  "and a reference minimum spanning forest",
    "level_note": "minimality is decided on the sorted list of tree edge weights (unique over all minimum spanning "
                  "forests, so ties cannot raise a false alarm); lowered thresholds are an artificial configuration "
                  "of the same code: fresh object per world, and worlds where the main loop ends with a non-empty "
                  "large-degree list are skipped and counted",
    "technique": SSE_TECH,
    "harnesses": [{"name": "basin", "families": True}],
    "rule": "worlds = (grid, mask/base deviation, elevation pattern); evaluations add (value map, tree method, "
            "threshold); non-trivial = >= 2 basins; distinct = digest of (basin labels, reference tree weights, method)",
    "assumptions": FLOW_ASSUME[1:3] + ["value maps v0 and v3 (one-ulp steps); thresholds other than 16 only with v0"],
    "bounds": {"quick": {"grids": "profile 6 8; raster 3x3 3x4(every 9th) 4x4(k=2) 6x6(every 5th interior pattern); 2 meshes"},
               "thorough": {"grids": "all patterns on 3x4 and 6x6; looped 4x4; k=4 on 3x3; 3 meshes"}},
    "deadline": {"quick": 600, "thorough": 1200},
}


SPL_ASSUME = FLOW_ASSUME[1:3] + [
    "parameter points: K in {0, 1e-3, 1} (scalar and two-valued array), m in {0.5, 1 (,0)}, n in {0.5, 1, 2 (,0.8, 1.5, 4)}, "
    "dt in {0, 1, 1e6 (,1e12)}, tolerance in {1e-3, 1e-9}; drainage area = accumulate(1) / ones / 3-level pattern; "
    "the eroded elevation is either the one update_routes returned or the raw input (unresolved lakes)",
    "graphs with non-finite partition weights are C05's business and skipped",
]
PROPERTIES["C12"] = {
    "engine": "sse",
    "level_text": SSE_LEVEL,
    "level_note": "routed graphs over 3-level fields on profile / raster / mesh grids x 5 routing programs x 38 (quick) "
                  "/ 146 (thorough) parameter points; 'slope reversed' is judged only for nodes that were actually lowered",
    "technique": SSE_TECH,
    "harnesses": [{"name": "spl", "families": True}],
    "rule": "worlds = (grid, mask/base deviation, elevation pattern); evaluations add (value map, program, parameter "
            "point); non-trivial = some node eroded; distinct = digest of the erosion field",
    "assumptions": SPL_ASSUME,
    "bounds": {"quick": {"fields": "all 3^6 on profiles and 2x3, every 7th/23rd of 3^9 on 3x3 and meshes"},
               "thorough": {"fields": "all 3^9 on 3x3 and the first mesh, 4x4 two-level every 7th"}},
    "deadline": {"quick": 600, "thorough": 1200},
}
PROPERTIES["C13"] = dict(PROPERTIES["C12"])
PROPERTIES["C13"].update({
    "level_note": "same worlds as C12; for every node that is not limited (new elevation strictly above the floor) the "
                  "backward-Euler residual is recomputed in long double from the returned erosion and the graph tables; "
                  "allowance = 1e-10 x (sum of |terms| and their sensitivities) + Newton tolerance for n != 1",
    "rule": "worlds as C12; non-trivial = at least one judged (not limited) node eroded; distinct = digest of the erosion field",
})
PROPERTIES["C14"] = {
    "engine": "sse",
    "level_text": "exhaustive enumeration of (shape, spacing, border status, K mode and value, time step) x every unit "
                  "basis field, pair sums, scaled fields and all 3-level fields on 3x3; every erode() result is compared "
                  "with a direct dense solve (partial pivoting, long double) of the two half-step systems assembled from "
                  "the discretisation; linearity and scalar/uniform agreement judged on the pairs",
    "level_note": "the eroder is linear in the elevation, so agreement on a basis + measured additivity/homogeneity fixes "
                  "the operator for each parameter point; K, dt and spacings are from listed finite sets; tolerance "
                  "1e-10 x (1 + largest intermediate magnitude)",
    "technique": SSE_TECH,
    "harnesses": [{"name": "adi"}],
    "rule": "worlds = parameter points (shape, spacing, border, K mode/pattern, K, dt); evaluations = fields judged; "
            "non-trivial = non-zero interior erosion; distinct = digest of the erosion field",
    "assumptions": ["shapes 3x3 3x4 4x3 4x5 5x4 (+5x5 3x6 6x3), spacings (1,1) (1,2) (0.5,3), K in {1e-3,1,1e3}, "
                    "dt in {0,1e-3,1,1e6}; variable K over {K,4K}: all assignments on 3x4 (every 37th in quick)"],
    "bounds": {"quick": {"variable K patterns on 3x4": "every 37th of 4095"}, "thorough": {"variable K patterns on 3x4": "all 4095"}},
    "deadline": {"quick": 600, "thorough": 1200},
}


def _st(q, t):
    return {"quick": ["--stride", str(q)], "thorough": ["--stride", str(t)]}


PROPERTIES["C08"] = {
    "engine": "sse",
    "level_text": "the enumerations of the other SSE checks (flow, grid, history/snapshot/program, basin graph, both "
                  "eroders) are re-run, on a fixed stride of their worlds, by builds of the same harnesses instrumented "
                  "with AddressSanitizer + UndefinedBehaviorSanitizer + libstdc++ assertions; the sanitizer is the "
                  "oracle (functional oracles are muted), every report is attributed to the world being executed and "
                  "keyed by error kind + first library source line",
    "level_note": "absence of UB is established for the enumerated executions only and for the classes these tools see "
                  "(out-of-bounds, use-after-free/scope/return, signed overflow, invalid shifts/casts, misaligned or "
                  "null access, libstdc++ container preconditions); quick visits every 8th..96th world of each quick "
                  "enumeration, thorough every 1st..6th of each thorough enumeration",
    "technique": "small-scope exhaustive enumeration (strided) under ASan/UBSan instrumentation, sanitizer-as-oracle",
    "harnesses": [
        {"name": "san_flow", "families": ["queen", "trimesh", "profile"], "args": _st(96, 6)},
        {"name": "san_grid", "args": _st(8, 1)},
        {"name": "san_hist", "families": ["queen"], "args": _st(8, 2)},
        {"name": "san_basin", "families": ["rook"], "args": _st(64, 4)},
        {"name": "san_spl", "families": ["queen"], "args": _st(8, 1)},
        {"name": "san_adi", "args": _st(8, 1)},
    ],
    "rule": "worlds = every stride-th world of the C01-C07, C09, C12-C20 enumerations; transitions = library calls "
            "executed under instrumentation; non-trivial / distinct = as counted by the underlying enumerations "
            "(outcome digests), summed over harnesses",
    "assumptions": ["g++ 12 -O1 -fsanitize=address,undefined -D_GLIBCXX_ASSERTIONS, detect_stack_use_after_return=1",
                    "reports for the same program counter are de-duplicated per worker by the ASan runtime",
                    "strict-aliasing violations and reads of indeterminate values are not detected by these tools",
                    "a caller-side use of something the library handed out (e.g. a dangling reference returned by an "
                    "iterator) is keyed by the harness stage instead of a library line"],
    "bounds": {"quick": {"stride": "flow 96, basin 64, others 8"}, "thorough": {"stride": "flow 6, basin 4, hist 2, others 1"}},
    "deadline": {"quick": 900, "thorough": 2400},
}


PROPERTIES["C11"] = {
    "engine": "mcsched",
    "level_text": "stateless exploration of the real thread_pool under a cooperative scheduler: std::atomic, "
                  "std::mutex, std::condition_variable and std::thread are substituted by shim types (macro around "
                  "the #include, no source hook) whose every operation is a scheduling point; all schedules within "
                  "the preemption bound are executed (one forked process each) for the call patterns the library "
                  "issues; each execution is judged on exactly-once execution, block shape, completion before "
                  "return, hang (no enabled thread, with spin-loop blocking) and data races (vector-clock "
                  "happens-before detector honouring the memory orders the code passes); the block arithmetic is "
                  "enumerated exhaustively without threads; second harness (mc_poolseq): EVERY sequence of pool "
                  "operations {run_blocks, pause, resume, resize(1..3|4)} up to length 3 (quick) / 4 (thorough) followed by "
                  "destruction, each explored over all schedules within the bound, with the pool header compiled with "
                  "-fsanitize=thread instrumentation feeding our own happens-before runtime (so the pool's plain members "
                  "p_jobs, m_paused, m_started, m_size, job vectors are race-checked) and libstdc++ assertions on (an "
                  "out-of-range flag index is a crash verdict with the schedule attached)",
    "level_note": "sequentially consistent interleavings only (weak-memory behaviours are not enumerated; the "
                  "happens-before detector flags what the C++ model leaves unordered); 2 workers (quick) / 2-3 "
                  "(thorough); preemption bound 2 un-cached on the single patterns, bound 1-2 with state caching on "
                  "multi-pattern scenarios (cache key = complete scheduler + detector state; the un-cached bound is "
                  "the stated guarantee); one or two spurious wake-ups as a separately bounded environment deviation",
    "technique": "preemption-bounded exhaustive schedule exploration (CHESS-style) of the implementation under a "
                 "controlled scheduler, happens-before race detector",
    "harnesses": [{"name": "mc_pool"}, {"name": "mc_poolseq"}],
    "rule": "states = distinct scheduler states at choice points (hash of atomics, lock owners, waiter sets, pending "
            "operations + call contexts, vector clocks, detector shadow); transitions = scheduling steps; "
            "evaluations = executions (schedules); non-trivial = executions with at least one preemptive switch; "
            "distinct = distinct sequences of choice-point states",
    "assumptions": ["spin-loop rule: a thread repeating a load of the same location from the same call context with no "
                    "intervening store is blocked until a store to that location (safety net: three forced re-reads "
                    "before a hang is declared)",
                    "job inputs / outputs are modelled by explicit plain-access events in the harness callbacks",
                    "pool constructed as flow_graph does (pool(10), never started before the first dispatch)"],
    "bounds": {"quick": {"workers": "2 (3 after a resize)", "preemptions": "2 (single pattern, un-cached), 1 (two patterns, un-cached), 2 (cached)",
                         "operation_sequences": "length <= 3 at bound 0, length <= 2 at bound 1 (+ length 3 over {r3,p,z3}), 1-4 workers"},
               "thorough": {"workers": "2-3", "preemptions": "3 (single pattern, un-cached), unbounded (cached), 2 elsewhere",
                            "operation_sequences": "length <= 4 at bound 0, length <= 3 at bound 1, length <= 2 at bound 2, 1-4 workers"}},
    "deadline": {"quick": 600, "thorough": 2400},
}


PROPERTIES["C10"] = {
    "engine": "mcsched",
    "level_text": "the real flow_graph / single_flow_router(parallel) / apply_kernel(parallel) on top of the real "
                  "thread_pool are compiled against the scheduler shims and with compiler-instrumented memory accesses "
                  "(-fsanitize=thread, linked against our own callback runtime instead of libtsan); all schedules "
                  "within the preemption bound are executed for router, kernel and two-call histories with 2 workers, "
                  "and the first schedules for 3..16 workers; every execution must reproduce the sequential result, "
                  "must not hang, and every pair of conflicting plain accesses must be ordered by happens-before",
    "level_note": "by Bernstein's conditions race-free blocks commute, so equality over sync-point schedules plus "
                  "race-freedom covers the interleavings of the block bodies; sequentially consistent interleavings "
                  "only; grids: cached 2x3 / 3x3 rasters, cache-less raster, cached and cache-less profile, 9-node mesh; "
                  "state-cached exploration (the un-cached guarantee for the pool itself is C11's); accesses inside "
                  "std helpers are attributed to the calling library line through a shadow call stack",
    "technique": "preemption-bounded exhaustive schedule exploration of the implementation under a controlled "
                 "scheduler, happens-before race detector fed by compiler instrumentation",
    "harnesses": [{"name": "mc_flow"}],
    "rule": "states = distinct scheduler states at choice points; transitions = scheduling steps; evaluations = "
            "executions; non-trivial = executions with at least one preemptive switch; distinct = distinct sequences "
            "of choice-point states",
    "assumptions": ["whether a terminal node lists itself as its own donor differs between the sequential and the "
                    "parallel router branch; the property does not list the donor table and the difference is not "
                    "observable through traversal orders, so donors are compared without self entries",
                    "real std::atomic objects left in instrumented code (shared_ptr reference counts) are executed "
                    "atomically and contribute no happens-before edge (can only add reports)",
                    "spin-loop rule and bounds as in C11"],
    "bounds": {"quick": {"workers": "2 explored (bound 1), 3/4/8 first 64 schedules", "histories": "<= 2 calls"},
               "thorough": {"workers": "2-3 explored (bound 1-2), 3/4/5/8/16 first 64 schedules", "histories": "<= 4 calls (capped at 300000 executions)"}},
    "deadline": {"quick": 900, "thorough": 2400},
}
