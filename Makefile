# Build of the verification harnesses.  Invoked by ./check (and setup_cmd) as
#   make -j16 REPO=/repo B=build/<hash-of-repo-include> <targets>
# Every binary depends on all headers under $(REPO)/include, so a change to the
# library rebuilds everything that is asked for.
REPO ?= /repo
B ?= build/current
CXX ?= g++
INC = -I$(REPO)/include -Iengine/sse -Iengine/mcsched
WARN = -w
BASEFLAGS = -std=c++17 -fno-access-control $(WARN) $(INC)
OPT ?= -O1
SANFLAGS = -fsanitize=address,undefined -fsanitize-recover=address -fno-sanitize-recover=undefined -fno-omit-frame-pointer -g1 -D_GLIBCXX_ASSERTIONS -O1

FAMILIES = profile rook queen bishop trimesh
FAM_profile = -DFAM_PROFILE
FAM_rook = -DFAM_ROOK
FAM_queen = -DFAM_QUEEN
FAM_bishop = -DFAM_BISHOP
FAM_trimesh = -DFAM_TRIMESH

LIBHDRS := $(shell find $(REPO)/include -name '*.hpp' 2>/dev/null)
ENGHDRS := $(wildcard engine/sse/*.hpp) $(wildcard engine/mcsched/*.hpp) $(wildcard engine/mcsched/*.h)

# family-split harnesses: $(B)/<name>_<family>
FAMILY_HARNESSES = flow hist basin spl
define FAMILY_RULES
$(B)/$(1)_$(2): harness/$(1).cpp $(LIBHDRS) $(ENGHDRS)
	@mkdir -p $(B)
	$(CXX) $(BASEFLAGS) $(OPT) $(FAM_$(2)) -o $$@ $$<
$(B)/san_$(1)_$(2): harness/$(1).cpp $(LIBHDRS) $(ENGHDRS)
	@mkdir -p $(B)
	$(CXX) $(BASEFLAGS) $(SANFLAGS) -DSSE_SANITIZED $(FAM_$(2)) -o $$@ $$<
endef
$(foreach h,$(FAMILY_HARNESSES),$(foreach f,$(FAMILIES),$(eval $(call FAMILY_RULES,$(h),$(f)))))

# single-binary harnesses (all families in one TU, light code)
SINGLE_HARNESSES = grid adi seq
define SINGLE_RULES
$(B)/$(1): harness/$(1).cpp $(LIBHDRS) $(ENGHDRS)
	@mkdir -p $(B)
	$(CXX) $(BASEFLAGS) $(OPT) -DFAM_ALL -o $$@ $$<
$(B)/san_$(1): harness/$(1).cpp $(LIBHDRS) $(ENGHDRS)
	@mkdir -p $(B)
	$(CXX) $(BASEFLAGS) $(SANFLAGS) -DSSE_SANITIZED -DFAM_ALL -o $$@ $$<
endef
$(foreach h,$(SINGLE_HARNESSES),$(eval $(call SINGLE_RULES,$(h))))

.PHONY: clean
clean:
	rm -rf build

# MCSCHED harnesses: the runtime is compiled without instrumentation
$(B)/mc_rt.o: engine/mcsched/mc_rt.cpp $(ENGHDRS)
	@mkdir -p $(B)
	$(CXX) -std=c++17 -O1 -g1 $(WARN) $(INC) -c -o $@ $<
$(B)/mc_pool: harness/mc_pool.cpp $(B)/mc_rt.o $(LIBHDRS) $(ENGHDRS)
	@mkdir -p $(B)
	$(CXX) $(BASEFLAGS) -O1 -g1 -D_GLIBCXX_ASSERTIONS -pthread -o $@ harness/mc_pool.cpp $(B)/mc_rt.o
$(B)/mc_preinclude.hpp: $(LIBHDRS)
	@mkdir -p $(B)
	grep -rhoE '#include [<"][^>"]+[>"]' $(REPO)/include | sort -u | grep -v fastscapelib | grep -v '"\./' | grep -v '"utils.hpp"' | grep -v Eigen > $@
$(B)/mc_tsan.o: engine/mcsched/mc_tsan.cpp $(ENGHDRS)
	@mkdir -p $(B)
	$(CXX) -std=c++17 -O1 -g1 $(WARN) $(INC) -fno-pie -c -o $@ $<
$(B)/mc_rt_nopie.o: engine/mcsched/mc_rt.cpp $(ENGHDRS)
	@mkdir -p $(B)
	$(CXX) -std=c++17 -O1 -g1 $(WARN) $(INC) -fno-pie -c -o $@ $<
$(B)/mc_flow.o: harness/mc_flow.cpp $(B)/mc_preinclude.hpp $(LIBHDRS) $(ENGHDRS)
	@mkdir -p $(B)
	$(CXX) $(BASEFLAGS) -I$(B) -O1 -g1 -fno-pie -D_GLIBCXX_ASSERTIONS -fsanitize=thread -c -o $@ harness/mc_flow.cpp
$(B)/mc_flow: $(B)/mc_flow.o $(B)/mc_tsan.o $(B)/mc_rt_nopie.o
	$(CXX) -no-pie -pthread -o $@ $^
$(B)/mc_poolseq.o: harness/mc_poolseq.cpp $(LIBHDRS) $(ENGHDRS)
	@mkdir -p $(B)
	$(CXX) $(BASEFLAGS) -O1 -g1 -fno-pie -D_GLIBCXX_ASSERTIONS -fsanitize=thread -c -o $@ harness/mc_poolseq.cpp
$(B)/mc_poolseq: $(B)/mc_poolseq.o $(B)/mc_tsan.o $(B)/mc_rt_nopie.o
	$(CXX) -no-pie -pthread -o $@ $^
