// SSE harness for the history / program properties:
//   C09  update_routes is a pure function of its current inputs (exhaustive call histories,
//        fresh-object differential)
//   C16  graph / elevation snapshots are faithful and read-only (prefix-graph differential)
//   C20  operator sequences: validation and declared effects (all programs <= 4 vs automaton)
#include "flow_oracles.hpp"

using namespace sse;

namespace
{
    // ------------------------------------------------------------------ complete observable state
    struct Obs
    {
        GState s;
        std::vector<double> acc;
        bool single = false;
        std::vector<std::size_t> labels, outlets, pits;
        std::vector<double> kernel;
        std::vector<u64> snaps;  // one digest per graph snapshot of the sequence (tables + accumulate(1))

        u64 digest() const
        {
            Hasher h;
            h.pod(s.digest(true));
            h.seq(snaps);
            h.seq(acc);
            h.seq(labels);
            h.seq(outlets);
            h.seq(pits);
            h.seq(kernel);
            return h.h;
        }
    };

    template <class FG, class A>
    Obs observe(FG& fg, const A& out, bool with_kernel = false)
    {
        Obs o;
        o.s = extract_state(fg.impl(), out);
        auto acc = fg.accumulate(1.0);
        o.acc.assign(acc.begin(), acc.end());
        o.single = fg.impl().single_flow() || [&]()
        {
            for (std::size_t i = 0; i < o.s.n; ++i)
                if (o.s.rcount[i] != 1)
                    return false;
            return true;
        }();
        if (o.single)
        {
            auto lab = fg.basins();
            o.labels.assign(lab.begin(), lab.end());
            o.outlets = fg.impl().outlets();
            o.pits = fg.impl_ptr()->pits();
        }
        if (with_kernel)
            o.kernel = run_depth_kernel(fg, fs::flow_graph_traversal_dir::depth_upstream);
        // graph snapshots taken inside the sequence are part of the state a caller can observe
        for (const auto& key : fg.graph_snapshot_keys())
        {
            auto& sg = fg.graph_snapshot(key);
            GState ss = extract_state(sg.impl(), out);
            ss.out.clear();  // the snapshot has no elevation of its own
            auto sacc = sg.accumulate(1.0);
            Hasher h;
            h.pod(ss.digest(true));
            for (auto v : sacc)
                h.pod(v);
            o.snaps.push_back(h.h);
        }
        return o;
    }

    template <class T>
    bool same_bits(const std::vector<T>& a, const std::vector<T>& b)
    {
        return a.size() == b.size() && (a.empty() || std::memcmp(a.data(), b.data(), a.size() * sizeof(T)) == 0);
    }

    // first component in which two observable states differ ("" = identical)
    std::string first_difference(const Obs& a, const Obs& b)
    {
        const GState &x = a.s, &y = b.s;
        if (x.n != y.n)
            return "size";
        if (!same_bits(x.out, y.out))
            return "returned-elevation";
        if (!same_bits(x.rcount, y.rcount))
            return "receivers-count";
        for (std::size_t i = 0; i < x.n; ++i)
            for (std::size_t k = 0; k < x.rc(i); ++k)
            {
                if (x.r(i, k) != y.r(i, k))
                    return "receivers";
                double d1 = x.d(i, k), d2 = y.d(i, k), w1 = x.w(i, k), w2 = y.w(i, k);
                if (std::memcmp(&d1, &d2, 8) != 0)
                    return "receivers-distance";
                if (std::memcmp(&w1, &w2, 8) != 0)
                    return "receivers-weight";
            }
        if (!same_bits(x.dcount, y.dcount))
            return "donors-count";
        for (std::size_t i = 0; i < x.n; ++i)
            for (std::size_t k = 0; k < x.dc(i); ++k)
                if (x.don(i, k) != y.don(i, k))
                    return "donors";
        if (!same_bits(x.dfs, y.dfs))
            return "dfs-indices";
        if (!same_bits(x.bfs, y.bfs))
            return "bfs-indices";
        if (!same_bits(x.levels, y.levels))
            return "bfs-levels";
        if (!same_bits(a.acc, b.acc))
            return "accumulate";
        if (a.single != b.single || !same_bits(a.labels, b.labels))
            return "basins";
        if (!same_bits(a.outlets, b.outlets))
            return "outlets";
        if (!same_bits(a.pits, b.pits))
            return "pits";
        if (!same_bits(a.kernel, b.kernel))
            return "kernel-output";
        if (!same_bits(a.snaps, b.snaps))
            return "graph-snapshot-state";
        return "";
    }

    // ------------------------------------------------------------------ reference automaton (C20, C16)
    struct Auto
    {
        bool accepted = true;
        std::string reject_reason;
        int dir = 0;  // 0 undefined, 1 single, 2 multi
        bool graph_updated = false;
        bool elevation_updated = false;
        bool all_single = true;
        std::vector<std::string> names, gkeys, ekeys;
        std::vector<int> gkey_single;  // direction at the time of each graph snapshot
    };

    Auto automaton(const Program& p)
    {
        Auto a;
        for (auto& o : p.ops)
        {
            bool is_single = o.rfind("single", 0) == 0;
            bool is_multi = o == "multi";
            bool is_pflood = o == "pflood";
            bool is_mst = o.rfind("mst", 0) == 0;
            bool is_gsnap = o.rfind("gsnap", 0) == 0 || o.rfind("gesnap", 0) == 0;
            bool is_esnap = o.rfind("esnap", 0) == 0 || o.rfind("gesnap", 0) == 0;
            if (is_gsnap)
            {
                if (a.dir == 0)
                {
                    a.accepted = false;
                    a.reject_reason = "graph snapshot before any router";
                    return a;
                }
                a.gkeys.push_back(o);
                a.gkey_single.push_back(a.dir == 1);
            }
            if (is_esnap)
                a.ekeys.push_back(o);
            if (is_mst && a.dir != 1)
            {
                a.accepted = false;
                a.reject_reason = "mst resolver needs single direction input";
                return a;
            }
            if (is_pflood || is_mst)
                a.elevation_updated = true;
            if (is_single || is_multi || is_mst)
            {
                a.graph_updated = true;
                a.dir = is_multi ? 2 : 1;
                if (is_multi)
                    a.all_single = false;
            }
            a.names.push_back(is_single ? "single_flow_router"
                                        : is_multi  ? "multi_flow_router"
                                        : is_pflood ? "pflood_sink_resolver"
                                        : is_mst    ? "mst_sink_resolver"
                                                    : "flow_snapshot");
        }
        if (!a.graph_updated || a.dir == 0)
        {
            a.accepted = false;
            a.reject_reason = "no operator updates the graph / defines a direction";
        }
        return a;
    }

    // ------------------------------------------------------------------ configurations
    GridSpec raster_spec(int rc, int nr, int nc, const char* borders, double sr, double sc, bool cache)
    {
        GridSpec g;
        g.kind = RASTER;
        g.rc = rc;
        g.nr = nr;
        g.nc = nc;
        g.sr = sr;
        g.sc = sc;
        g.cache = cache;
        for (int i = 0; i < 4; ++i)
            g.b[i] = status_from_char(borders[i]);
        return g;
    }
    GridSpec profile_spec(int n, const char* borders, double sp, bool cache)
    {
        GridSpec g;
        g.kind = PROFILE;
        g.nr = 1;
        g.nc = n;
        g.sc = sp;
        g.cache = cache;
        g.b[0] = status_from_char(borders[0]);
        g.b[1] = status_from_char(borders[1]);
        return g;
    }
    GridSpec mesh_spec(const char* cells, int jitter, int vorder, int smode)
    {
        GridSpec g;
        g.kind = TRIMESH;
        for (int i = 0; i < 4; ++i)
            g.cells[i] = cells[i] - '0';
        g.jitter = jitter;
        g.vorder = vorder;
        g.smode = smode;
        g.cache = false;
        return g;
    }
    bool usable(const GridSpec& g, const Args& a)
    {
        return family_compiled(g.family()) && (a.family.empty() || a.family == g.family());
    }

    // =====================================================================================
    // C09
    // =====================================================================================
    struct H9Config
    {
        std::vector<std::vector<double>> fields;         // 4
        std::vector<std::vector<int>> masks;             // 3 (first = all false)
        std::vector<std::vector<std::size_t>> bases;     // 4 (first = default fixed-value nodes)
    };

    H9Config h9_config(const GridSpec& gs, const RefGeom& geo)
    {
        H9Config c;
        std::size_t n = static_cast<std::size_t>(geo.n);
        std::size_t nc = gs.kind == RASTER ? static_cast<std::size_t>(gs.nc) : n;
        std::vector<double> f0(n, 0.0), f1(n), f2(n), f3(n);
        for (std::size_t i = 0; i < n; ++i)
        {
            std::size_t r = i / nc, col = i % nc;
            f1[i] = static_cast<double>((r + col) % 2);                       // two levels, heavy ties
            f2[i] = static_cast<double>((i * 5 + 3) % 3);                      // three levels with ties
            f3[i] = 10.0 - static_cast<double>((i * 7) % n) * 0.5;             // all distinct
        }
        // a closed depression in every field that has room for one
        if (n >= 9)
        {
            std::size_t mid = gs.kind == RASTER ? (static_cast<std::size_t>(gs.nr) / 2) * nc + nc / 2 : n / 2;
            f2[mid] = -1.0;
            f3[mid] = -3.0;
        }
        c.fields = { f0, f1, f2, f3 };
        std::vector<int> m0(n, 0), m1(n, 0), m2(n, 0);
        m1[n / 2] = 1;
        m2[0] = 1;
        if (n > 3)
            m2[n - 2] = 1;
        c.masks = { m0, m1, m2 };
        std::vector<std::size_t> b0, b1, b2, b3;
        for (std::size_t i = 0; i < n; ++i)
        {
            if (geo.status[i] == FIXED_VALUE)
                b0.push_back(i);
            b1.push_back(i);
        }
        if (b0.empty())
            b0 = { 0 };
        // two members congruent modulo 13 (the first prime bucket count of libstdc++'s
        // unordered_set): after the set once held > 13 members they iterate differently
        if (n >= 15)
            b2 = { 1, 14 };
        else
            b2 = { 0, n - 1 };
        b3 = { n / 2 + 1 < n ? n / 2 + 1 : 0 };
        c.bases = { b0, b1, b2, b3 };
        return c;
    }

    enum H9Event
    {
        EV_UPDATE0 = 0,  // .. +3
        EV_MASK0 = 4,    // .. +2
        EV_BASE0 = 7,    // .. +3
        EV_P1 = 11,
        EV_P2 = 12,
        EV_KRUSKAL = 13,
        EV_BORUVKA = 14,
        EV_BASIC = 15,
        EV_CARVE = 16,
        EV_ACCUMULATE = 17,
        EV_BASINS = 18,
        EV_END = 19
    };
    const char* h9_name(int e)
    {
        static const char* names[] = { "update(f0)", "update(f1)", "update(f2)", "update(f3)", "mask(none)", "mask(m1)",
                                       "mask(m2)", "base(default)", "base(all)", "base(pair)", "base(single)", "p=1",
                                       "p=2", "kruskal", "boruvka", "basic", "carve", "accumulate", "basins" };
        return names[e];
    }

    struct H9Params
    {
        int mask = -1;  // -1 never set
        int base = -1;  // -1 never set
        double p = 1.0;
        fs::mst_method bm = fs::mst_method::kruskal;
        fs::mst_route_method rm = fs::mst_route_method::carve;
    };

    std::string h9_world(const GridSpec& g, const Program& prog, const std::vector<int>& hist)
    {
        std::ostringstream o;
        o << "g=" << g.str() << ";prog=" << prog.str() << ";h=";
        for (std::size_t i = 0; i < hist.size(); ++i)
            o << (i ? " " : "") << hist[i];
        o << ";names=";
        for (std::size_t i = 0; i < hist.size(); ++i)
            o << (i ? "," : "") << h9_name(hist[i]);
        return o.str();
    }

    template <class G>
    struct H9
    {
        Ctx& ctx;
        G& grid;
        const GridSpec& gs;
        const RefGeom& geo;
        H9Config cfg;
        Program prog;
        std::vector<int> alphabet;
        bool probing = false;
        std::string probe_result;

        Program prog_with(const H9Params& pr) const
        {
            Program q = prog;
            for (auto& o : q.ops)
                if (o.rfind("mst", 0) == 0)
                    o = std::string("mst:") + (pr.bm == fs::mst_method::boruvka ? "b" : "k") + ":"
                        + (pr.rm == fs::mst_route_method::basic ? "b" : "c");
            return q;
        }

        template <class B>
        void apply_params(B& b, const H9Params& pr)
        {
            for (auto& m : b.multis)
                m->m_slope_exp = pr.p;
            for (auto& m : b.msts)
            {
                m->m_basin_method = pr.bm;
                m->m_route_method = pr.rm;
            }
        }

        // replay a history; judge the last event (an update) against a fresh graph
        void judge(const std::vector<int>& hist)
        {
            H9Params pr;
            // initial operator parameters = the program as written
            for (auto& o : prog.ops)
                if (o.rfind("mst", 0) == 0)
                {
                    auto parts = split(o, ':');
                    pr.bm = parts[1] == "b" ? fs::mst_method::boruvka : fs::mst_method::kruskal;
                    pr.rm = parts[2] == "b" ? fs::mst_route_method::basic : fs::mst_route_method::carve;
                }
            // accumulate() / basins() on a graph that never computed routes is outside the
            // documented domain (the tables hold their initial invalid indices)
            for (int e : hist)
            {
                if (e < EV_MASK0)
                    break;
                if (e == EV_ACCUMULATE || e == EV_BASINS)
                {
                    if (!probing)
                        ++ctx.rep.skipped;
                    return;
                }
            }
            Built<G> b = build_graph(grid, prog, pr.p);
            auto& fg = *b.fg;
            Obs last;
            std::vector<double> last_field;
            bool nontrivial = false;
            for (std::size_t k = 0; k < hist.size(); ++k)
            {
                int e = hist[k];
                bool final = k + 1 == hist.size();
                if (e >= EV_UPDATE0 && e < EV_MASK0)
                {
                    const auto& fld = cfg.fields[static_cast<std::size_t>(e - EV_UPDATE0)];
                    // domain: at least one unmasked base level
                    {
                        bool ok = false;
                        const auto& bl = pr.base < 0 ? cfg.bases[0] : cfg.bases[static_cast<std::size_t>(pr.base)];
                        for (auto bi : bl)
                            if (pr.mask < 0 || !cfg.masks[static_cast<std::size_t>(pr.mask)][bi])
                                ok = true;
                        if (!ok)
                        {
                            if (!probing)
                                ++ctx.rep.skipped;
                            return;
                        }
                    }
                    auto arr = make_field(grid, fld);
                    auto copy = arr;
                    const auto& out = fg.update_routes(arr);
                    ++ctx.rep.ops;
                    if (!final)
                    {
                        nontrivial = true;
                        continue;
                    }
                    // (i) argument untouched
                    for (std::size_t i = 0; i < fld.size() && !probing; ++i)
                        if (std::memcmp(&arr.flat(i), &copy.flat(i), 8) != 0)
                        {
                            ctx.rep.violation("C09/argument-modified", ctx.order(), h9_world(gs, prog, hist),
                                              "node " + std::to_string(i));
                            break;
                        }
                    last = observe(fg, out);
                    // (ii) fresh graph with the inputs in force
                    Program q = prog_with(pr);
                    Built<G> fb = build_graph(grid, q, pr.p);
                    if (pr.base >= 0)
                        fb.fg->set_base_levels(cfg.bases[static_cast<std::size_t>(pr.base)]);
                    if (pr.mask >= 0)
                        fb.fg->set_mask(make_mask(grid, cfg.masks[static_cast<std::size_t>(pr.mask)]));
                    auto arr2 = make_field(grid, fld);
                    const auto& out2 = fb.fg->update_routes(arr2);
                    Obs fresh = observe(*fb.fg, out2);
                    ++ctx.rep.ops;
                    std::string d = first_difference(last, fresh);
                    if (probing)
                    {
                        probe_result = d;
                        return;
                    }
                    if (!d.empty())
                    {
                        // mechanism discriminator: the kinds of earlier events that are
                        // *needed* (greedy removal of prefix events while the difference stays)
                        std::vector<int> minimal = hist;
                        probing = true;
                        for (bool changed = true; changed;)
                        {
                            changed = false;
                            for (std::size_t k = 0; k + 1 < minimal.size();)
                            {
                                std::vector<int> cand = minimal;
                                cand.erase(cand.begin() + static_cast<std::ptrdiff_t>(k));
                                probe_result.clear();
                                judge(cand);
                                if (!probe_result.empty())
                                {
                                    minimal = cand;
                                    changed = true;
                                }
                                else
                                    ++k;
                            }
                        }
                        probing = false;
                        std::string cls = classify(minimal);
                        ctx.rep.violation("C09/history-dependent/" + resolver_kind() + "/" + cls, ctx.order(),
                                          h9_world(gs, prog, minimal),
                                          "differs from a fresh graph in: " + d + " (found on history " + h9_world(gs, prog, hist)
                                              + ")");
                    }
                    // (iii) repeating the call reproduces the state
                    auto arr3 = make_field(grid, fld);
                    const auto& out3 = fg.update_routes(arr3);
                    Obs again = observe(fg, out3);
                    ++ctx.rep.ops;
                    std::string d2 = first_difference(last, again);
                    if (!d2.empty())
                        ctx.rep.violation("C09/repeat-differs/" + resolver_kind() + "/" + d2, ctx.order(),
                                          h9_world(gs, prog, hist), "second identical call differs in: " + d2);
                }
                else if (e < EV_BASE0)
                {
                    pr.mask = e - EV_MASK0;
                    fg.set_mask(make_mask(grid, cfg.masks[static_cast<std::size_t>(pr.mask)]));
                    ++ctx.rep.ops;
                }
                else if (e < EV_P1)
                {
                    pr.base = e - EV_BASE0;
                    fg.set_base_levels(cfg.bases[static_cast<std::size_t>(pr.base)]);
                    ++ctx.rep.ops;
                }
                else if (e == EV_P1 || e == EV_P2)
                {
                    pr.p = e == EV_P1 ? 1.0 : 2.0;
                    apply_params(b, pr);
                }
                else if (e == EV_KRUSKAL || e == EV_BORUVKA)
                {
                    pr.bm = e == EV_KRUSKAL ? fs::mst_method::kruskal : fs::mst_method::boruvka;
                    apply_params(b, pr);
                }
                else if (e == EV_BASIC || e == EV_CARVE)
                {
                    pr.rm = e == EV_BASIC ? fs::mst_route_method::basic : fs::mst_route_method::carve;
                    apply_params(b, pr);
                }
                else if (e == EV_ACCUMULATE)
                {
                    (void) fg.accumulate(2.0);
                    ++ctx.rep.ops;
                }
                else if (e == EV_BASINS)
                {
                    (void) fg.basins();
                    ++ctx.rep.ops;
                }
            }
            ++ctx.rep.evaluations;
            if (nontrivial || hist.size() > 1)
            {
                ++ctx.rep.nontrivial;
                Hasher h;
                h.pod(last.digest());
                h.pod(pr.mask);
                h.pod(pr.base);
                h.str(prog.str());
                ctx.rep.digest(h.h);
            }
        }

        std::string resolver_kind() const
        {
            if (prog.has("pflood"))
                return "pflood";
            if (prog.has("mst"))
                return "mst";
            return "router-only";
        }
        // what distinguishes the failing history: the kinds of events before the final update
        std::string classify(const std::vector<int>& hist) const
        {
            bool upd = false, mask = false, base = false, p = false, bm = false, rm = false;
            for (std::size_t k = 0; k + 1 < hist.size(); ++k)
            {
                int e = hist[k];
                if (e < EV_MASK0)
                    upd = true;
                else if (e < EV_BASE0)
                    mask = true;
                else if (e < EV_P1)
                    base = true;
                else if (e <= EV_P2)
                    p = true;
                else if (e <= EV_BORUVKA)
                    bm = true;
                else if (e <= EV_CARVE)
                    rm = true;
            }
            std::string s = "after";
            if (upd)
                s += "-update";
            if (mask)
                s += "-mask";
            if (base)
                s += "-base";
            if (p)
                s += "-exponent";
            if (bm)
                s += "-basin-method";
            if (rm)
                s += "-route-method";
            return s;
        }

        // All histories of length 1..depth whose last event is an update (the judged call);
        // prefix events range over the program's alphabet.  The sub-tree below each two-event
        // prefix is one sharding unit; shorter histories are judged by shard 0.
        void enumerate(int depth, bool& sampled)
        {
            std::vector<int> hist;
            std::function<void()> rec = [&]()
            {
                bool own = hist.size() >= 2 || ctx.shard == 0 || ctx.replay_mode;
                if (own)
                    for (int u = 0; u < 4; ++u)
                    {
                        hist.push_back(EV_UPDATE0 + u);
                        alarm(30);
                        ctx.world_fn = [&]() { return h9_world(gs, prog, hist); };
                        ++ctx.rep.worlds;
                        judge(hist);
                        alarm(0);
                        if (!sampled && hist.size() >= 3 && ctx.shard == 0)
                        {
                            ctx.rep.sample(h9_world(gs, prog, hist));
                            sampled = true;
                        }
                        hist.pop_back();
                    }
                if (static_cast<int>(hist.size()) + 2 > depth)
                    return;
                for (int e : alphabet)
                {
                    if (hist.size() == 1)
                    {
                        if (!ctx.mine())
                            continue;
                        if (ctx.out_of_time())
                            return;
                    }
                    hist.push_back(e);
                    rec();
                    hist.pop_back();
                    if (ctx.rep.deadline_hit)
                        return;
                }
            };
            rec();
        }
    };

    void run_c09(Ctx& ctx)
    {
        const bool th = ctx.thorough();
        struct Cfg
        {
            GridSpec g;
            int depth;
        };
        std::vector<Cfg> cfgs;
        int d = th ? 6 : 5;
        cfgs.push_back({ raster_spec(QUEEN, 3, 3, "VVVV", 1, 1, true), d });
        cfgs.push_back({ raster_spec(QUEEN, 4, 4, "VVVV", 1, 1, true), d });
        cfgs.push_back({ raster_spec(ROOK, 4, 4, "VVCC", 1, 2, true), d });
        cfgs.push_back({ raster_spec(QUEEN, 3, 3, "LLVV", 1, 1, false), d - 1 });
        cfgs.push_back({ profile_spec(16, "VV", 1.0, true), d });
        cfgs.push_back({ mesh_spec("1111", 1, 0, 0), d });
        std::vector<Program> progs
            = { Program::parse("single"),          Program::parse("multi"),          Program::parse("pflood+single"),
                Program::parse("pflood+multi"),    Program::parse("single+mst:k:c"), Program::parse("single+mst:b:b"),
                Program::parse("single+mst:k:c+multi"), Program::parse("single+gsnap1+multi"),
                Program::parse("single+gsnap1+mst:b:c+gsnap2") };
        if (ctx.replay_mode)
        {
            auto kv = parse_kv(ctx.args.replay);
            GridSpec g = GridSpec::parse(kv["g"]);
            Program p = Program::parse(kv["prog"]);
            std::vector<int> hist;
            for (auto& t : split(kv["h"], ' '))
                if (!t.empty())
                    hist.push_back(std::atoi(t.c_str()));
            RefGeom geo = ref_geometry(g);
            bool ok = with_grid(g,
                                [&](auto& grid)
                                {
                                    using G = std::decay_t<decltype(grid)>;
                                    H9<G> h{ ctx, grid, g, geo, h9_config(g, geo), p, {} };
                                    ++ctx.rep.worlds;
                                    h.judge(hist);
                                });
            if (!ok)
                ctx.rep.bounds["replay"] = "family-not-in-this-binary";
            return;
        }
        for (auto& c : cfgs)
        {
            if (!usable(c.g, ctx.args))
                continue;
            RefGeom geo = ref_geometry(c.g);
            for (auto& p : progs)
            {
                with_grid(c.g,
                          [&](auto& grid)
                          {
                              using G = std::decay_t<decltype(grid)>;
                              H9<G> h{ ctx, grid, c.g, geo, h9_config(c.g, geo), p, {} };
                              for (int e = 0; e < EV_END; ++e)
                              {
                                  if ((e == EV_P1 || e == EV_P2) && !p.has("multi"))
                                      continue;
                                  if (e >= EV_KRUSKAL && e <= EV_CARVE && !p.has("mst"))
                                      continue;
                                  if (e == EV_BASINS && !p.final_single())
                                      continue;
                                  h.alphabet.push_back(e);
                              }
                              bool sampled = false;
                              h.enumerate(c.depth, sampled);
                          });
                if (ctx.rep.deadline_hit)
                    return;
            }
            ctx.rep.bounds["c09_depth_" + c.g.family()] = std::to_string(c.depth);
        }
    }

    // =====================================================================================
    // C20
    // =====================================================================================
    std::string c20_world(const GridSpec& g, const Program& p)
    {
        return "g=" + g.str() + ";prog=" + p.str();
    }

    template <class G>
    void c20_one(Ctx& ctx, G& grid, const GridSpec& gs, const Program& p)
    {
        Auto a = automaton(p);
        std::string w = c20_world(gs, p);
        auto V = [&](const std::string& sig, const std::string& det) { ctx.rep.violation("C20/" + sig, ctx.order(), w, det); };
        ++ctx.rep.evaluations;
        ++ctx.rep.ops;
        std::unique_ptr<Built<G>> b;
        bool threw = false;
        std::string what;
        try
        {
            b = std::make_unique<Built<G>>(build_graph(grid, p));
        }
        catch (const std::invalid_argument& e)
        {
            threw = true;
            what = e.what();
        }
        catch (const std::exception& e)
        {
            V("wrong-exception-type", e.what());
            return;
        }
        Hasher h;
        h.str(p.str());
        h.pod(gs.kind);
        ++ctx.rep.nontrivial;
        ctx.rep.digest(h.h);
        if (threw != !a.accepted)
        {
            V(a.accepted ? "valid-sequence-rejected" : "invalid-sequence-accepted",
              a.accepted ? what : ("automaton: " + a.reject_reason));
            return;
        }
        if (!a.accepted)
        {
            ctx.rep.hit("rejected-programs");
            return;
        }
        ctx.rep.hit("accepted-programs");
        auto& fg = *b->fg;
        if (fg.single_flow() != (a.dir == 1))
            V("reported-direction-differs", std::string("single_flow() = ") + (fg.single_flow() ? "true" : "false"));
        std::vector<std::string> names;
        for (auto* op : fg.operators())
            names.push_back(op->name());
        if (names != a.names)
            V("operators-list-differs", "");
        if (fg.graph_snapshot_keys() != a.gkeys)
            V("graph-snapshot-keys-differ", "");
        if (fg.elevation_snapshot_keys() != a.ekeys)
            V("elevation-snapshot-keys-differ", "");
        std::size_t width = fg.impl().receivers().shape()[1];
        std::size_t want_width = a.all_single ? 1 : G::n_neighbors_max();
        if (width != want_width)
            V("receiver-table-width-differs", "width " + std::to_string(width) + " expected " + std::to_string(want_width));
        for (std::size_t k = 0; k < a.gkeys.size(); ++k)
        {
            auto& snap = fg.graph_snapshot(a.gkeys[k]);
            std::size_t sw = snap.impl().receivers().shape()[1];
            std::size_t want = a.gkey_single[k] ? 1 : G::n_neighbors_max();
            if (sw != want)
                V("snapshot-table-width-differs", a.gkeys[k]);
        }
        if (p.has("single2"))
        {
            ctx.rep.hit("parallel-programs-not-updated");
            return;  // starting worker threads is C10/C11's business (controlled scheduler)
        }
        // one update on a small field: must not throw; identity of the returned array
        std::vector<double> fld(static_cast<std::size_t>(gs.size()));
        for (std::size_t i = 0; i < fld.size(); ++i)
            fld[i] = static_cast<double>((i * 5 + 2) % 4);
        auto arr = make_field(grid, fld);
        try
        {
            const auto& out = fg.update_routes(arr);
            ++ctx.rep.ops;
            bool same = &out == &arr;
            if (same != !a.elevation_updated)
                V(same ? "returns-caller-array-although-elevation-edited" : "returns-copy-although-no-operator-edits-elevation",
                  "");
            for (std::size_t i = 0; i < fld.size(); ++i)
                if (arr.flat(i) != fld[i])
                {
                    V("argument-modified", "node " + std::to_string(i));
                    break;
                }
        }
        catch (const std::exception& e)
        {
            V("update-throws", e.what());
        }
    }

    // the same sequences through the public variadic constructor
    template <class G>
    void c20_variadic(Ctx& ctx, G& grid, const GridSpec& gs)
    {
        using FG = fs::flow_graph<G>;
        auto cmp = [&](const char* prog, FG& fg)
        {
            Program p = Program::parse(prog);
            Auto a = automaton(p);
            ++ctx.rep.evaluations;
            ++ctx.rep.ops;
            std::string w = c20_world(gs, p) + ";ctor=variadic";
            std::size_t want_width = a.all_single ? 1 : G::n_neighbors_max();
            if (!a.accepted || fg.single_flow() != (a.dir == 1) || fg.impl().receivers().shape()[1] != want_width
                || fg.graph_snapshot_keys() != a.gkeys || fg.elevation_snapshot_keys() != a.ekeys)
                ctx.rep.violation("C20/variadic-constructor-differs", ctx.order(), w, "");
        };
        {
            FG fg(grid, { fs::single_flow_router() });
            cmp("single", fg);
        }
        {
            FG fg(grid, { fs::multi_flow_router(1.0) });
            cmp("multi", fg);
        }
        {
            FG fg(grid, { fs::pflood_sink_resolver(), fs::single_flow_router() });
            cmp("pflood+single", fg);
        }
        {
            FG fg(grid, { fs::single_flow_router(), fs::mst_sink_resolver() });
            cmp("single+mst:k:c", fg);
        }
        {
            FG fg(grid, { fs::single_flow_router(), fs::flow_snapshot("gsnap1"), fs::multi_flow_router(2.0) });
            cmp("single+gsnap1+multi", fg);
        }
        {
            FG fg(grid, { fs::flow_snapshot("esnap0", false, true), fs::pflood_sink_resolver(), fs::multi_flow_router(0.0) });
            cmp("esnap0+pflood+multi", fg);
        }
        auto must_throw = [&](const char* prog, auto&& make)
        {
            ++ctx.rep.evaluations;
            bool threw = false;
            try
            {
                make();
            }
            catch (const std::invalid_argument&)
            {
                threw = true;
            }
            if (!threw)
                ctx.rep.violation("C20/variadic-constructor-differs", ctx.order(),
                                  c20_world(gs, Program::parse(prog)) + ";ctor=variadic", "invalid sequence accepted");
        };
        must_throw("pflood", [&]() { FG fg(grid, { fs::pflood_sink_resolver() }); });
        must_throw("multi+mst:k:c", [&]() { FG fg(grid, { fs::multi_flow_router(1.0), fs::mst_sink_resolver() }); });
        must_throw("gsnap0+single", [&]() { FG fg(grid, { fs::flow_snapshot("gsnap0"), fs::single_flow_router() }); });
        must_throw("mst:k:c", [&]() { FG fg(grid, { fs::mst_sink_resolver() }); });
    }

    std::vector<Program> all_programs(int maxlen, const std::vector<std::string>& kinds)
    {
        std::vector<Program> out;
        std::vector<int> idx;
        for (int len = 1; len <= maxlen; ++len)
        {
            idx.assign(static_cast<std::size_t>(len), 0);
            do
            {
                Program p;
                for (int k = 0; k < len; ++k)
                {
                    std::string o = kinds[static_cast<std::size_t>(idx[static_cast<std::size_t>(len - 1 - k)])];
                    if (o == "gsnap" || o == "esnap" || o == "gesnap")
                        o += std::to_string(k);
                    p.ops.push_back(o);
                }
                out.push_back(p);
            } while (next_pattern(idx, static_cast<int>(kinds.size())));
        }
        return out;
    }

    void run_c20(Ctx& ctx)
    {
        const bool th = ctx.thorough();
        std::vector<GridSpec> grids = { profile_spec(5, "VV", 1.0, true), raster_spec(QUEEN, 3, 3, "VVVV", 1, 1, true),
                                        mesh_spec("1111", 0, 0, 0) };
        if (th)
        {
            grids.push_back(profile_spec(4, "LL", 2.0, false));
            grids.push_back(raster_spec(QUEEN, 2, 3, "LLCV", 1, 2, false));
            grids.push_back(mesh_spec("2121", 1, 2, 2));
        }
        if (ctx.replay_mode)
        {
            auto kv = parse_kv(ctx.args.replay);
            GridSpec g = GridSpec::parse(kv["g"]);
            Program p = Program::parse(kv["prog"]);
            bool ok = with_grid(g,
                                [&](auto& grid)
                                {
                                    ++ctx.rep.worlds;
                                    if (kv.count("ctor"))
                                        c20_variadic(ctx, grid, g);
                                    else
                                        c20_one(ctx, grid, g, p);
                                });
            if (!ok)
                ctx.rep.bounds["replay"] = "family-not-in-this-binary";
            return;
        }
        std::vector<std::string> kinds = { "single", "single2", "multi", "pflood", "mst:k:c", "gsnap", "esnap" };
        if (th)
            kinds.push_back("gesnap");
        auto progs = all_programs(th ? 5 : 4, kinds);
        ctx.rep.bounds["c20_programs"] = std::to_string(progs.size());
        for (auto& g : grids)
        {
            if (!usable(g, ctx.args))
                continue;
            with_grid(g,
                      [&](auto& grid)
                      {
                          bool sampled = false;
                          for (auto& p : progs)
                          {
                              if (!ctx.mine())
                                  continue;
                              ++ctx.rep.worlds;
                              alarm(20);
                              ctx.world_fn = [&]() { return c20_world(g, p); };
                              c20_one(ctx, grid, g, p);
                              alarm(0);
                              if (!sampled && p.ops.size() == 4 && automaton(p).accepted && ctx.shard == 3)
                              {
                                  ctx.rep.sample(c20_world(g, p));
                                  sampled = true;
                              }
                          }
                          if (ctx.shard == 0)
                          {
                              ++ctx.rep.worlds;
                              c20_variadic(ctx, grid, g);
                          }
                      });
        }
    }

    // =====================================================================================
    // C16
    // =====================================================================================
    struct S16Case
    {
        std::vector<double> fa, fb;
        bool has_mask = false;
        std::vector<int> mask;
        bool default_base = true;
        std::vector<std::size_t> base;
    };

    std::string c16_world(const GridSpec& g, const Program& p, const S16Case& c)
    {
        std::ostringstream o;
        o << "g=" << g.str() << ";prog=" << p.str() << ";e=";
        for (std::size_t i = 0; i < c.fa.size(); ++i)
            o << (i ? " " : "") << hexd(c.fa[i]);
        o << ";e2=";
        for (std::size_t i = 0; i < c.fb.size(); ++i)
            o << (i ? " " : "") << hexd(c.fb[i]);
        o << ";m=";
        if (!c.has_mask)
            o << "-";
        else
            for (int b : c.mask)
                o << (b ? '1' : '0');
        o << ";b=";
        if (c.default_base)
            o << "d";
        else
            for (std::size_t i = 0; i < c.base.size(); ++i)
                o << (i ? " " : "") << c.base[i];
        return o.str();
    }

    template <class G>
    void c16_one(Ctx& ctx, G& grid, const GridSpec& gs, const Program& p, const S16Case& c)
    {
        std::string w;
        auto V = [&](const std::string& sig, const std::string& det)
        {
            if (w.empty())
                w = c16_world(gs, p, c);
            ctx.rep.violation("C16/" + sig, ctx.order(), w, det);
        };
        Auto a = automaton(p);
        if (!a.accepted)
            return;
        ++ctx.rep.evaluations;
        auto configure = [&](auto& fg)
        {
            if (!c.default_base)
                fg.set_base_levels(c.base);
            if (c.has_mask)
                fg.set_mask(make_mask(grid, c.mask));
        };
        Built<G> main = build_graph(grid, p);
        configure(*main.fg);
        // prefix graphs: one per snapshot position
        struct Pref
        {
            std::string name;
            bool graph, elev;
            Program prefix;
            bool router_appended = false;
            std::unique_ptr<Built<G>> built;
        };
        std::vector<Pref> prefs;
        for (std::size_t k = 0; k < p.ops.size(); ++k)
        {
            const auto& o = p.ops[k];
            bool g = o.rfind("gsnap", 0) == 0 || o.rfind("gesnap", 0) == 0;
            bool e = o.rfind("esnap", 0) == 0 || o.rfind("gesnap", 0) == 0;
            if (!g && !e)
                continue;
            Pref pf;
            pf.name = o;
            pf.graph = g;
            pf.elev = e;
            for (std::size_t j = 0; j < k; ++j)
                if (p.ops[j].find("snap") == std::string::npos)
                    pf.prefix.ops.push_back(p.ops[j]);
            if (!automaton(pf.prefix).accepted)
            {
                // elevation snapshot ahead of any router: a router appended to the prefix
                // does not edit elevation, so the returned elevation is still the expectation
                pf.prefix.ops.push_back("single");
                pf.router_appended = true;
            }
            pf.built = std::make_unique<Built<G>>(build_graph(grid, pf.prefix));
            configure(*pf.built->fg);
            prefs.push_back(std::move(pf));
        }
        const std::vector<double>* rounds[2] = { &c.fa, &c.fb };
        for (int r = 0; r < 2; ++r)
        {
            if (r == 1)
            {
                // the second update also changes mask and base levels (on the main graph and
                // on the prefix graphs alike): nothing of the first round may survive
                std::size_t nn = c.fa.size();
                std::vector<int> m2(nn, 0);
                m2[nn / 3] = 1;
                if (c.has_mask)
                    m2[nn / 2] = 0;
                std::vector<std::size_t> b2 = { 0, nn - 1 };
                auto reconf = [&](auto& fg)
                {
                    fg.set_base_levels(b2);
                    fg.set_mask(make_mask(grid, m2));
                };
                reconf(*main.fg);
                for (auto& pf : prefs)
                    reconf(*pf.built->fg);
            }
            auto arr = make_field(grid, *rounds[r]);
            main.fg->update_routes(arr);
            ++ctx.rep.ops;
            for (auto& pf : prefs)
            {
                auto parr = make_field(grid, *rounds[r]);
                const auto& pout = pf.built->fg->update_routes(parr);
                ++ctx.rep.ops;
                std::string stage = std::string(r == 0 ? "first update" : "second update (other input)") + ", snapshot "
                                    + pf.name + " after prefix [" + pf.prefix.str() + "]";
                if (pf.elev)
                {
                    const auto& es = main.fg->elevation_snapshot(pf.name);
                    bool same = es.size() == pout.size();
                    for (std::size_t i = 0; same && i < pout.size(); ++i)
                        if (std::memcmp(&es.flat(i), &pout.flat(i), 8) != 0)
                            same = false;
                    if (!same)
                        V("elevation-snapshot-differs", stage);
                }
                if (pf.graph)
                {
                    auto& sg = main.fg->graph_snapshot(pf.name);
                    Obs want = observe(*pf.built->fg, pout, true);
                    Obs got = observe(sg, pout, true);
                    std::string d = first_difference(got, want);
                    if (!d.empty())
                        V("graph-snapshot-differs/" + d + (want.single ? "/single-direction" : "/multiple-direction"),
                          stage + ": differs from the prefix graph in " + d);
                    // every mutating call must be refused
                    auto refuses = [&](const char* what, auto&& fn)
                    {
                        bool threw = false;
                        try
                        {
                            fn();
                        }
                        catch (const std::runtime_error&)
                        {
                            threw = true;
                        }
                        catch (...)
                        {
                            threw = true;
                        }
                        if (!threw)
                            V(std::string("snapshot-accepts-") + what, stage);
                    };
                    refuses("update_routes", [&]() { sg.update_routes(arr); });
                    refuses("set_base_levels", [&]() { sg.set_base_levels(std::vector<std::size_t>{ 0 }); });
                    refuses("set_mask", [&]() { sg.set_mask(make_mask(grid, std::vector<int>(static_cast<std::size_t>(gs.size()), 0))); });
                    Hasher h;
                    h.pod(want.digest());
                    ++ctx.rep.nontrivial;
                    ctx.rep.digest(h.h);
                }
                else
                {
                    Hasher h;
                    for (std::size_t i = 0; i < pout.size(); ++i)
                        h.pod(pout.flat(i));
                    h.str(pf.prefix.str());
                    ++ctx.rep.nontrivial;
                    ctx.rep.digest(h.h);
                }
            }
        }
    }

    void run_c16(Ctx& ctx)
    {
        const bool th = ctx.thorough();
        if (ctx.replay_mode)
        {
            auto kv = parse_kv(ctx.args.replay);
            GridSpec g = GridSpec::parse(kv["g"]);
            Program p = Program::parse(kv["prog"]);
            S16Case c;
            for (auto& t : split(kv["e"], ' '))
                if (!t.empty())
                    c.fa.push_back(unhexd(t));
            for (auto& t : split(kv["e2"], ' '))
                if (!t.empty())
                    c.fb.push_back(unhexd(t));
            std::string m = kv["m"];
            c.has_mask = m != "-";
            if (c.has_mask)
                for (char ch : m)
                    c.mask.push_back(ch == '1');
            std::string b = kv["b"];
            c.default_base = b == "d";
            if (!c.default_base)
                for (auto& t : split(b, ' '))
                    if (!t.empty())
                        c.base.push_back(static_cast<std::size_t>(std::atol(t.c_str())));
            bool ok = with_grid(g,
                                [&](auto& grid)
                                {
                                    ++ctx.rep.worlds;
                                    c16_one(ctx, grid, g, p, c);
                                });
            if (!ok)
                ctx.rep.bounds["replay"] = "family-not-in-this-binary";
            return;
        }
        std::vector<std::string> kinds = { "single", "multi", "pflood", "mst:k:c", "mst:b:b", "gsnap", "esnap" };
        if (th)
            kinds.push_back("gesnap");
        std::vector<Program> progs;
        for (auto& p : all_programs(4, kinds))
        {
            int snaps = 0;
            for (auto& o : p.ops)
                if (o.find("snap") != std::string::npos)
                    ++snaps;
            if (snaps >= 1 && snaps <= 2 && automaton(p).accepted)
                progs.push_back(p);
        }
        ctx.rep.bounds["c16_programs"] = std::to_string(progs.size());
        std::vector<GridSpec> grids = { raster_spec(QUEEN, 3, 3, "VVVV", 1, 1, true), profile_spec(6, "VC", 1.0, true),
                                        mesh_spec("1111", 1, 0, 0) };
        if (th)
        {
            grids.push_back(raster_spec(QUEEN, 3, 3, "LLVV", 1, 2, false));
            grids.push_back(profile_spec(5, "LL", 2.0, false));
            grids.push_back(mesh_spec("2121", 2, 3, 2));
        }
        const auto& vm = value_maps()[0];
        for (auto& g : grids)
        {
            if (!usable(g, ctx.args))
                continue;
            RefGeom geo = ref_geometry(g);
            std::size_t n = static_cast<std::size_t>(geo.n);
            bool has_default = false;
            for (int s : geo.status)
                if (s == FIXED_VALUE)
                    has_default = true;
            with_grid(g,
                      [&](auto& grid)
                      {
                          bool sampled = false;
                          std::vector<int> pat(n, 0);
                          u64 pidx = 0;
                          const u64 stride = th ? 61 : 331;  // every stride-th order pattern of 3^n
                          do
                          {
                              if ((pidx++ % stride) != 0)
                                  continue;
                              for (int dev = 0; dev < 3; ++dev)
                              {
                                  S16Case c;
                                  c.fa.resize(n);
                                  c.fb.resize(n);
                                  for (std::size_t i = 0; i < n; ++i)
                                  {
                                      c.fa[i] = vm[static_cast<std::size_t>(pat[i])];
                                      c.fb[i] = vm[static_cast<std::size_t>((pat[n - 1 - i] + 1) % 3)];
                                  }
                                  if (dev == 0 && !has_default)
                                      continue;
                                  if (dev == 1)
                                  {
                                      c.has_mask = true;
                                      c.mask.assign(n, 0);
                                      c.mask[n / 2] = 1;
                                      if (!has_default)
                                      {
                                          c.default_base = false;
                                          c.base = { 0 };
                                      }
                                  }
                                  if (dev == 2)
                                  {
                                      c.default_base = false;
                                      c.base = { n / 2 + 1 < n ? n / 2 + 1 : 0, 0 };
                                  }
                                  for (auto& p : progs)
                                  {
                                      if (!ctx.mine())
                                          continue;
                                      if ((ctx.rep.worlds & 0x3f) == 0 && ctx.out_of_time())
                                          return;
                                      ++ctx.rep.worlds;
                                      alarm(30);
                                      ctx.world_fn = [&]() { return c16_world(g, p, c); };
                                      c16_one(ctx, grid, g, p, c);
                                      alarm(0);
                                      if (!sampled && ctx.shard == 5 && p.ops.size() == 4)
                                      {
                                          ctx.rep.sample(c16_world(g, p, c));
                                          sampled = true;
                                      }
                                  }
                              }
                          } while (next_pattern(pat, 3));
                      });
        }
    }
}

int main(int argc, char** argv)
{
    return sse_main(argc, argv, { "C09", "C16", "C20" },
                    [&](Ctx& ctx)
                    {
                        const Args& a = ctx.args;
                        if (a.property == "C09")
                            run_c09(ctx);
                        else if (a.property == "C16")
                            run_c16(ctx);
                        else
                            run_c20(ctx);
                    });
}
