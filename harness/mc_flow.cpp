// MCSCHED harness for C10: the real single_flow_router (parallel branch) and
// flow_graph::apply_kernel (parallel branch) on top of the real thread_pool, all compiled
// against the scheduler shims and with compiler-instrumented memory accesses
// (-fsanitize=thread, linked against engine/mcsched/mc_tsan.cpp instead of libtsan).
//  (i)   results of every explored schedule equal the sequential results,
//  (ii)  no data race between blocks or between caller and blocks (happens-before detector
//        over all instrumented accesses),
//  (iii) no hang.
#include "common.hpp"
#include "refgeom.hpp"
#include "mc_explore.hpp"
#include "mc_shims.hpp"
#include "mc_sig.hpp"

// every external header the library uses, before the identifiers are redirected
#include "mc_preinclude.hpp"

#define atomic verif_atomic
#define atomic_bool verif_atomic_bool
#define mutex verif_mutex
#define condition_variable verif_cv
#define thread verif_thread
#include "fastscapelib/utils/thread_pool.hpp"
#include "fastscapelib/flow/flow_graph.hpp"
#include "fastscapelib/flow/flow_router.hpp"
#include "fastscapelib/flow/sink_resolver.hpp"
#include "fastscapelib/flow/flow_snapshot.hpp"
#include "fastscapelib/grid/profile_grid.hpp"
#include "fastscapelib/grid/raster_grid.hpp"
#include "fastscapelib/grid/trimesh.hpp"
#undef atomic
#undef atomic_bool
#undef mutex
#undef condition_variable
#undef thread

#define FAM_ALL
#include "flowlib.hpp"

using namespace sse;

namespace
{
    // ------------------------------------------------------------------ scenario description
    // ops separated by '/':  U,<t>           update_routes with single_flow_router(t)
    //                        K,<t>,<minblock>,<minlevel>,<dir>   apply_kernel (dir a|b)
    struct Scen
    {
        GridSpec g;
        std::vector<double> elev;
        std::vector<std::string> ops;
        std::vector<std::size_t> base;  // explicit base levels (empty: the grid's fixed-value nodes)
        std::string str() const
        {
            std::ostringstream o;
            o << "g=" << g.str() << ";e=";
            for (std::size_t i = 0; i < elev.size(); ++i)
                o << (i ? " " : "") << hexd(elev[i]);
            o << ";ops=";
            for (std::size_t i = 0; i < ops.size(); ++i)
                o << (i ? "/" : "") << ops[i];
            if (!base.empty())
            {
                o << ";bl=";
                for (std::size_t i = 0; i < base.size(); ++i)
                    o << (i ? " " : "") << base[i];
            }
            return o.str();
        }
        static Scen parse(const std::string& s)
        {
            Scen sc;
            auto kv = parse_kv(s);
            sc.g = GridSpec::parse(kv["g"]);
            for (auto& t : split(kv["e"], ' '))
                if (!t.empty())
                    sc.elev.push_back(unhexd(t));
            sc.ops = split(kv["ops"], '/');
            if (kv.count("bl"))
                for (auto& t : split(kv["bl"], ' '))
                    if (!t.empty())
                        sc.base.push_back(static_cast<std::size_t>(std::atoi(t.c_str())));
            return sc;
        }
    };

    struct Expected
    {
        std::vector<u64> digests;  // one per op (state digest or kernel output digest)
    };

    u64 digest_of(const std::vector<double>& v)
    {
        Hasher h;
        h.seq(v);
        return h.h;
    }

    // Runs the scenario; in `sequential` mode every thread count is forced to 1 (no worker
    // threads, scheduler not needed) and the digests are recorded; otherwise compared.
    template <class G>
    void run_ops(G& grid, const Scen& sc, bool sequential, Expected& exp)
    {
        // one graph object for the whole history: the pool is paused / resumed / resized
        int t0 = 1;
        for (auto& op : sc.ops)
            if (op[0] == 'U')
                t0 = std::atoi(split(op, ',')[1].c_str());
        Program prog;
        prog.ops = { sequential || t0 <= 1 ? std::string("single") : "single" + std::to_string(t0) };
        Built<G> b = build_graph(grid, prog);
        auto& fg = *b.fg;
        if (!sc.base.empty())
            fg.set_base_levels(sc.base);
        auto field = make_field(grid, sc.elev);
        bool routed = false;
        std::size_t k = 0;
        for (auto& op : sc.ops)
        {
            auto f = split(op, ',');
            if (f[0] == "U")
            {
                int t = std::atoi(f[1].c_str());
                b.singles[0]->m_threads_count = sequential ? 0 : t;
                mc::note("update_routes");
                mc::set_instrumentation(true);
                const auto& out = fg.update_routes(field);
                mc::set_instrumentation(false);
                routed = true;
                GState s = extract_state(fg.impl(), out);
                // what the property lists: receivers, distances, weights, traversal orders,
                // accumulation (+ donors of *other* nodes; whether a terminal node lists itself
                // as its own donor differs between the two router branches and is unobservable
                // through traversal orders)
                u64 d = 0;
                {
                    Hasher h;
                    h.pod(s.digest(false));
                    for (std::size_t i = 0; i < s.n; ++i)
                    {
                        for (std::size_t q = 0; q < s.dc(i); ++q)
                            if (s.don(i, q) != i)
                                h.pod(s.don(i, q));
                        int sep = -1;
                        h.pod(sep);
                    }
                    h.seq(s.dfs);
                    h.seq(s.bfs);
                    h.seq(s.levels);
                    auto acc = fg.accumulate(1.0);
                    for (std::size_t i = 0; i < s.n; ++i)
                        h.pod(acc.flat(i));
                    d = h.h;
                }
                if (std::getenv("MC_DEBUG"))
                {
                    std::string o;
                    for (auto v : s.out) o += hexd(v) + " ";
                    o += "| rc:"; for (auto v : s.rcount) o += std::to_string(v) + " ";
                    o += "| dc:"; for (auto v : s.dcount) o += std::to_string(v) + " ";
                    o += "| recv:"; for (auto v : s.recv) o += std::to_string(v) + " ";
                    o += "| rd:"; for (auto v : s.rdist) o += hexd(v) + " ";
                    o += "| rw:"; for (auto v : s.rweight) o += hexd(v) + " ";
                    o += "| don:"; for (auto v : s.donors) o += std::to_string((long)v) + " ";
                    o += "| dfs:"; for (auto v : s.dfs) o += std::to_string(v) + " ";
                    o += "| bfs:"; for (auto v : s.bfs) o += std::to_string(v) + " ";
                    o += "| lev:"; for (auto v : s.levels) o += std::to_string(v) + " ";
                    std::fprintf(stderr, "%s FULL %s\n", sequential ? "seq" : "par", o.c_str());
                }
                if (std::getenv("MC_DEBUG"))
                    std::fprintf(stderr, "%s digest %llx shape_ok=%d n=%zu width=%zu out0=%s rc0=%zu levels=%zu\n", sequential ? "seq" : "par",
                                 static_cast<unsigned long long>(d), int(s.shape_ok), s.n, s.width, hexd(s.out.empty() ? 0 : s.out[0]).c_str(),
                                 s.rcount.empty() ? 0 : s.rcount[0], s.levels.size());
                if (sequential)
                    exp.digests.push_back(d);
                else if (d != exp.digests[k])
                {
                    if (std::getenv("MC_DEBUG"))
                    {
                        std::string o = "recv:";
                        for (std::size_t i = 0; i < s.n; ++i)
                            o += " " + std::to_string(s.r(i, 0)) + "/" + std::to_string(s.rcount[i]) + "/" + hexd(s.d(i, 0)) + "/" + hexd(s.w(i,0));
                        o += " dfs:";
                        for (auto v : s.dfs)
                            o += " " + std::to_string(v);
                        o += " bfs:";
                        for (auto v : s.bfs)
                            o += " " + std::to_string(v);
                        o += " lev:";
                        for (auto v : s.levels)
                            o += " " + std::to_string(v);
                        o += " don:";
                        for (std::size_t i = 0; i < s.n; ++i) { o += " ["; for (std::size_t q = 0; q < s.dc(i); ++q) o += std::to_string(s.don(i,q)) + ","; o += "]"; }
                        mc::fail("ASSERT", "parallel-router-result-differs-from-sequential " + o);
                    }
                    mc::fail("ASSERT", "parallel-router-result-differs-from-sequential");
                }
            }
            else
            {
                if (!routed)
                {
                    b.singles[0]->m_threads_count = 0;
                    fg.update_routes(field);
                    routed = true;
                }
                int t = std::atoi(f[1].c_str());
                int mb = std::atoi(f[2].c_str()), ml = std::atoi(f[3].c_str());
                auto dir = f[4] == "a" ? fs::flow_graph_traversal_dir::any : fs::flow_graph_traversal_dir::breadth_upstream;
                mc::note("apply_kernel");
                std::vector<double> out;
                if (f[4] == "a")
                {
                    // order-free kernel for the `any` direction: every node only reads the
                    // (constant) elevation of its receiver and writes its own slot
                    fs::detail::flow_kernel kn = make_depth_kernel(fg, dir, sequential ? 1 : t, mb, ml);
                    const auto* impl = &fg.impl();
                    const auto* fld = &field;
                    kn.node_data_getter = [impl, fld](std::size_t i, void*, void* nd) -> int
                    {
                        auto* n = static_cast<KernelNode*>(nd);
                        n->idx = i;
                        n->best = fld->flat(impl->receivers()(i, 0));
                        return 0;
                    };
                    KernelData kd;
                    kd.out.assign(fg.size(), -5.0);
                    fs::detail::flow_kernel_data fkd;
                    fkd.data = &kd;
                    mc::set_instrumentation(true);
                    fg.apply_kernel(kn, fkd);
                    mc::set_instrumentation(false);
                    out = kd.out;
                }
                else
                {
                    mc::set_instrumentation(true);
                    out = run_depth_kernel(fg, dir, sequential ? 1 : t, mb, ml);
                    mc::set_instrumentation(false);
                }
                u64 d = digest_of(out);
                if (sequential)
                    exp.digests.push_back(d);
                else if (d != exp.digests[k])
                    mc::fail("ASSERT", "parallel-kernel-output-differs-from-sequential");
            }
            ++k;
        }
        mc::note("destroy");
    }

    void run_scenario(const Scen& sc, bool sequential, Expected& exp)
    {
        bool ok = with_grid(sc.g, [&](auto& grid) { run_ops(grid, sc, sequential, exp); });
        if (!ok)
            mc::fail("ASSERT", "grid family not compiled");
    }

    using mcsig::signatures;

    std::string sched_str(const std::vector<int>& s)
    {
        std::string o;
        for (std::size_t i = 0; i < s.size(); ++i)
            o += (i ? " " : "") + std::to_string(s[i]);
        return o;
    }

    GridSpec raster_spec(int rc, int nr, int nc, const char* borders, bool cache)
    {
        GridSpec g;
        g.kind = RASTER;
        g.rc = rc;
        g.nr = nr;
        g.nc = nc;
        g.cache = cache;
        for (int i = 0; i < 4; ++i)
            g.b[i] = status_from_char(borders[i]);
        return g;
    }
    GridSpec profile_spec(int n, const char* borders, bool cache)
    {
        GridSpec g;
        g.kind = PROFILE;
        g.nr = 1;
        g.nc = n;
        g.cache = cache;
        g.b[0] = status_from_char(borders[0]);
        g.b[1] = status_from_char(borders[1]);
        return g;
    }
    GridSpec mesh_spec(const char* cells)
    {
        GridSpec g;
        g.kind = TRIMESH;
        for (int i = 0; i < 4; ++i)
            g.cells[i] = cells[i] - '0';
        g.cache = false;
        return g;
    }
    std::vector<double> field_for(const GridSpec& g, int variant)
    {
        std::size_t n = static_cast<std::size_t>(g.size());
        std::vector<double> e(n);
        for (std::size_t i = 0; i < n; ++i)
            e[i] = variant == 0 ? static_cast<double>((i * 5 + 2) % 4) : static_cast<double>(n - i) * 0.5 + static_cast<double>((i * 3) % 2);
        return e;
    }
}

int main(int argc, char** argv)
{
    Args a = parse_args(argc, argv);
    if (a.property != "C10")
    {
        std::fprintf(stderr, "mc_flow serves C10\n");
        return 2;
    }
    auto t0 = std::chrono::steady_clock::now();
    Report rep;
    if (!a.replay.empty())
    {
        auto kv = parse_kv(a.replay);
        Scen sc = Scen::parse(a.replay);
        std::vector<int> sched;
        for (auto& t : split(kv["sched"], ' '))
            if (!t.empty())
                sched.push_back(std::atoi(t.c_str()));
        Expected exp;
        run_scenario(sc, true, exp);
        mc::Result r = mc::run_schedule([&]() { run_scenario(sc, false, exp); }, sched, true, 0);
        ++rep.worlds;
        ++rep.evaluations;
        for (auto& sg : signatures(r))
            rep.violation("C10/" + sg, 0, a.replay, r.verdict + ": " + r.detail);
        if (std::getenv("MC_TRACE"))
            for (auto& l : r.trace)
                std::fprintf(stderr, "%s\n", l.c_str());
        std::string js = rep.to_json(a, 0.0);
        std::fputs(js.c_str(), stdout);
        return 0;
    }
    const bool th = a.thorough();
    struct Job
    {
        Scen sc;
        int bound;
        bool cache;
        long cap;  // execution cap (-1: none)
    };
    std::vector<Job> jobs;
    auto add = [&](const GridSpec& g, int fv, std::vector<std::string> ops, int bound, bool cache, long cap = -1)
    {
        Scen sc;
        sc.g = g;
        sc.elev = field_for(g, fv);
        sc.ops = ops;
        jobs.push_back({ sc, bound, cache, cap });
    };
    // 2x3 rasters with a fixed-value left column only: four nodes are routed
    GridSpec rq = raster_spec(QUEEN, 2, 3, "VCCC", true), rqn = raster_spec(QUEEN, 2, 3, "VCCC", false);
    GridSpec pr = profile_spec(6, "VC", true), prn = profile_spec(6, "VC", false);
    GridSpec tm = mesh_spec("1111");
    tm.smode = 2;  // explicit status map: one fixed-value node, eight routed nodes
    GridSpec r33 = raster_spec(ROOK, 3, 3, "VCVC", true);
    // schedule exploration (2 workers), cached raster: router, kernel, and two-call histories
    add(rq, 0, { "U,2" }, th ? 2 : 1, true);
    add(rq, 1, { "U,2", "U,2" }, 1, true);
    add(rq, 0, { "U,2", "K,2,1,1,b" }, 1, true);
    add(rq, 0, { "K,2,1,1,a" }, 1, true);
    // thread count growing / shrinking between two parallel calls on the same graph
    add(rq, 1, { "K,2,1,1,b", "K,4,1,1,b" }, 0, true, 3000);
    add(rq, 0, { "K,3,1,1,a", "U,2" }, 0, true, 3000);
    // grids that hand out scratch storage for neighbour look-ups: cache-less raster,
    // cache-less profile, triangular mesh
    add(rqn, 0, { "U,2" }, 1, true);
    add(prn, 0, { "U,2" }, 1, true);
    add(tm, 0, { "U,2" }, th ? 1 : 0, true);
    add(pr, 1, { "U,2", "K,2,2,1,b" }, th ? 1 : 0, true, th ? -1 : 20000);
    // the race verdict does not depend on the schedule: first schedules for t = 3..16
    for (int t : th ? std::vector<int>{ 3, 4, 5, 8, 16 } : std::vector<int>{ 3, 4, 8 })
    {
        add(r33, 0, { "U," + std::to_string(t), "K," + std::to_string(t) + ",1,1,b" }, 0, true, 64);
        add(tm, 1, { "U," + std::to_string(t) }, 0, true, 64);
        add(rqn, 1, { "U," + std::to_string(t) }, 0, true, 64);
    }
    // a wide breadth-first level: 3x3 queen raster draining into its centre (the only base
    // level), so one level holds 8 nodes; many workers, minimum block size 2 and 3 (the block
    // count is reduced by the minimum size), first schedules only (race / result verdict)
    {
        GridSpec rc = raster_spec(QUEEN, 3, 3, "CCCC", true);
        for (auto& ops : std::vector<std::vector<std::string>>{ { "K,5,2,1,b" }, { "K,6,2,1,b" }, { "K,8,3,1,b" }, { "K,3,2,1,b" }, { "U,5", "K,5,2,1,a" } })
        {
            Scen sc;
            sc.g = rc;
            sc.elev = { 2, 1, 2, 1, 0, 1, 2, 1, 2 };
            sc.ops = ops;
            sc.base = { 4 };
            jobs.push_back({ sc, 0, true, 64 });
        }
    }
    if (th)
    {
        add(r33, 1, { "U,2", "K,2,1,2,b", "U,3" }, 0, true, 300000);
        add(rq, 0, { "U,2", "K,2,1,1,b", "U,3", "K,3,2,1,b" }, 0, true, 300000);
        add(rq, 1, { "U,3" }, 1, true);
        add(r33, 0, { "K,2,1,100,b", "K,2,100,1,b", "K,3,2,2,a" }, 1, true, 300000);
        add(tm, 1, { "U,2", "K,2,1,1,b" }, 1, true, 300000);
    }
    // capped jobs (first schedules only) and low bounds first: the time they leave unused rolls
    // over to the long searches at the end
    std::stable_sort(jobs.begin(), jobs.end(),
                     [](const Job& x, const Job& y)
                     {
                         auto cost = [](const Job& j)
                         { return (j.cap >= 0 && j.cap <= 3000 ? 0 : 100) + 10 * j.bound + static_cast<int>(j.sc.ops.size()); };
                         return cost(x) < cost(y);
                     });
    double budget = a.deadline_s;
    for (std::size_t ji = 0; ji < jobs.size(); ++ji)
    {
        auto& j = jobs[ji];
        Expected exp;
        run_scenario(j.sc, true, exp);  // sequential reference, computed once in the explorer
        mc::ExploreConfig cfg;
        cfg.bound = j.bound;
        cfg.cache = j.cache;
        cfg.jobs = a.jobs;
        cfg.max_executions = j.cap;
        cfg.horizon = 200000;
        double el = std::chrono::duration<double>(std::chrono::steady_clock::now() - t0).count();
        // even share of what is left among the jobs still to run (unused time rolls over)
        cfg.deadline_s = std::max(5.0, (budget - el) / static_cast<double>(jobs.size() - ji));
        mc::ExploreStats st = mc::explore([&]() { run_scenario(j.sc, false, exp); }, cfg, signatures);
        std::string ops;
        for (auto& o : j.sc.ops)
            ops += (ops.empty() ? "" : "/") + o;
        std::string key = j.sc.g.str() + " " + ops + " bound=" + std::to_string(j.bound) + (j.cache ? " cached" : " uncached")
                          + (j.cap >= 0 ? " cap=" + std::to_string(j.cap) : "");
        bool capped_ok = !st.complete && st.incomplete_reason == "execution cap";
        rep.bounds[key] = std::string(st.complete ? "complete" : (capped_ok ? "first executions only (race verdict)" : "INCOMPLETE(" + st.incomplete_reason + ")"))
                          + " executions=" + std::to_string(st.executions) + " states=" + std::to_string(st.states.size())
                          + " max_steps=" + std::to_string(st.max_steps);
        rep.worlds += st.states.size();
        rep.evaluations += static_cast<u64>(st.executions);
        rep.ops += static_cast<u64>(st.steps);
        rep.nontrivial += static_cast<u64>(st.with_preemption);
        for (auto h : st.outcomes)
            rep.digest(h ^ (0x9e3779b97f4a7c15ull * (ji + 1)));
        for (auto& kv : st.verdicts)
            rep.hit("verdict/" + kv.first, static_cast<u64>(kv.second));
        if (!st.complete && !capped_ok)
            rep.deadline_hit = true;
        for (auto& kv : st.bad)
        {
            std::string world = j.sc.str() + ";bound=" + std::to_string(j.bound) + ";sched=" + sched_str(kv.second.schedule);
            rep.viol_counts["C10/" + kv.first] += static_cast<u64>(kv.second.count) - 1;
            rep.violation("C10/" + kv.first, static_cast<u64>(kv.second.schedule.size()), world,
                          kv.second.verdict + ": " + kv.second.detail);
        }
        for (auto& s : st.sample_schedules)
            rep.sample(j.sc.str() + ";sched=" + sched_str(s));
    }
    rep.compact();
    double wall = std::chrono::duration<double>(std::chrono::steady_clock::now() - t0).count();
    std::string js = rep.to_json(a, wall);
    if (a.out.empty())
        std::fputs(js.c_str(), stdout);
    else
    {
        std::ofstream f(a.out);
        f << js;
    }
    return 0;
}
