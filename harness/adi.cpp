// SSE harness for C14: one step of the diffusion eroder equals the two-half-step
// alternating-direction-implicit scheme, solved directly (dense elimination, long double).
#include "lib.hpp"
#include "fastscapelib/eroders/diffusion_adi.hpp"

using namespace sse;

namespace
{
    using LD = long double;

    struct ACase
    {
        int nr = 3, nc = 3;
        double sr = 1, sc = 1;
        int border = FIXED_VALUE;  // status of all four borders (looped allowed)
        int kmode = 0;             // 0 scalar, 1 uniform array, 2 variable array (pattern kpat over {1,4} x kval)
        double kval = 1.0;
        u64 kpat = 0;
        double dt = 1.0;
        int reuse = 0;  // 1: decoy K -> target K; 2: decoy -> target -> other kind -> same target (judged step is the last call)
        std::vector<double> h;
    };

    std::string world_str(const ACase& c)
    {
        std::ostringstream o;
        o << "shape=" << c.nr << "x" << c.nc << ";sp=" << hexd(c.sr) << ":" << hexd(c.sc) << ";border=" << status_char(c.border)
          << ";kmode=" << c.kmode << ";K=" << hexd(c.kval) << ";kpat=" << c.kpat << ";dt=" << hexd(c.dt) << ";reuse=" << c.reuse << ";e=";
        for (std::size_t i = 0; i < c.h.size(); ++i)
            o << (i ? " " : "") << hexd(c.h[i]);
        return o.str();
    }
    bool parse_world(const std::string& s, ACase& c)
    {
        auto kv = parse_kv(s);
        if (!kv.count("shape"))
            return false;
        auto sh = split(kv["shape"], 'x');
        c.nr = std::atoi(sh[0].c_str());
        c.nc = std::atoi(sh[1].c_str());
        auto sp = split(kv["sp"], ':');
        c.sr = unhexd(sp[0]);
        c.sc = unhexd(sp[1]);
        c.border = status_from_char(kv["border"][0]);
        c.kmode = std::atoi(kv["kmode"].c_str());
        c.kval = unhexd(kv["K"]);
        c.kpat = std::strtoull(kv["kpat"].c_str(), nullptr, 10);
        c.dt = unhexd(kv["dt"]);
        c.reuse = kv.count("reuse") ? std::atoi(kv["reuse"].c_str()) : 0;
        for (auto& t : split(kv["e"], ' '))
            if (!t.empty())
                c.h.push_back(unhexd(t));
        return true;
    }

    std::vector<double> k_field(const ACase& c)
    {
        std::size_t n = static_cast<std::size_t>(c.nr * c.nc);
        std::vector<double> k(n, c.kval);
        if (c.kmode == 2)
            for (std::size_t i = 0; i < n; ++i)
                k[i] = ((c.kpat >> (i % 60)) & 1) ? 4 * c.kval : c.kval;
        return k;
    }

    // dense solve with partial pivoting
    std::vector<LD> solve_dense(std::vector<std::vector<LD>> A, std::vector<LD> b)
    {
        std::size_t n = b.size();
        for (std::size_t col = 0; col < n; ++col)
        {
            std::size_t piv = col;
            for (std::size_t r = col + 1; r < n; ++r)
                if (std::fabs(A[r][col]) > std::fabs(A[piv][col]))
                    piv = r;
            std::swap(A[piv], A[col]);
            std::swap(b[piv], b[col]);
            for (std::size_t r = col + 1; r < n; ++r)
            {
                LD f = A[r][col] / A[col][col];
                if (f == 0)
                    continue;
                for (std::size_t k = col; k < n; ++k)
                    A[r][k] -= f * A[col][k];
                b[r] -= f * b[col];
            }
        }
        std::vector<LD> x(n);
        for (std::size_t i = n; i-- > 0;)
        {
            LD s = b[i];
            for (std::size_t k = i + 1; k < n; ++k)
                s -= A[i][k] * x[k];
            x[i] = s / A[i][i];
        }
        return x;
    }

    // reference: Peaceman-Rachford, first half-step implicit along x (column index) and explicit
    // along y (row index), second half-step the other way round; face-averaged diffusivity;
    // the four borders keep their elevation
    std::vector<LD> reference(const ACase& c, LD& magnitude)
    {
        std::size_t nr = static_cast<std::size_t>(c.nr), nc = static_cast<std::size_t>(c.nc);
        std::vector<double> kf = k_field(c);
        auto K = [&](std::size_t r, std::size_t col) -> LD { return kf[r * nc + col]; };
        auto H = [&](const std::vector<LD>& v, std::size_t r, std::size_t col) -> LD { return v[r * nc + col]; };
        LD dy = c.sr, dx = c.sc, dt = c.dt;
        // half-step coefficients: D/2 at the faces
        auto ay_lo = [&](std::size_t r, std::size_t col) { return (K(r - 1, col) + K(r, col)) / 4 / (dy * dy); };
        auto ay_hi = [&](std::size_t r, std::size_t col) { return (K(r, col) + K(r + 1, col)) / 4 / (dy * dy); };
        auto ax_lo = [&](std::size_t r, std::size_t col) { return (K(r, col - 1) + K(r, col)) / 4 / (dx * dx); };
        auto ax_hi = [&](std::size_t r, std::size_t col) { return (K(r, col) + K(r, col + 1)) / 4 / (dx * dx); };
        std::vector<LD> h0(c.h.begin(), c.h.end()), h1 = h0, h2;
        magnitude = 0;
        for (LD v : h0)
            magnitude = std::max(magnitude, std::fabs(v));
        for (std::size_t r = 1; r + 1 < nr; ++r)
        {
            std::vector<std::vector<LD>> A(nc, std::vector<LD>(nc, 0));
            std::vector<LD> b(nc);
            for (std::size_t col = 0; col < nc; ++col)
            {
                if (col == 0 || col + 1 == nc)
                {
                    A[col][col] = 1;
                    b[col] = H(h0, r, col);
                    continue;
                }
                A[col][col - 1] = -ax_lo(r, col) * dt;
                A[col][col + 1] = -ax_hi(r, col) * dt;
                A[col][col] = 1 + (ax_lo(r, col) + ax_hi(r, col)) * dt;
                b[col] = H(h0, r, col) + dt * (ay_lo(r, col) * (H(h0, r - 1, col) - H(h0, r, col)) + ay_hi(r, col) * (H(h0, r + 1, col) - H(h0, r, col)));
                magnitude = std::max(magnitude, std::fabs(b[col]));
            }
            auto x = solve_dense(A, b);
            for (std::size_t col = 0; col < nc; ++col)
                h1[r * nc + col] = x[col];
        }
        for (LD v : h1)
            magnitude = std::max(magnitude, std::fabs(v));
        h2 = h1;
        for (std::size_t col = 1; col + 1 < nc; ++col)
        {
            std::vector<std::vector<LD>> A(nr, std::vector<LD>(nr, 0));
            std::vector<LD> b(nr);
            for (std::size_t r = 0; r < nr; ++r)
            {
                if (r == 0 || r + 1 == nr)
                {
                    A[r][r] = 1;
                    b[r] = H(h1, r, col);
                    continue;
                }
                A[r][r - 1] = -ay_lo(r, col) * dt;
                A[r][r + 1] = -ay_hi(r, col) * dt;
                A[r][r] = 1 + (ay_lo(r, col) + ay_hi(r, col)) * dt;
                b[r] = H(h1, r, col) + dt * (ax_lo(r, col) * (H(h1, r, col - 1) - H(h1, r, col)) + ax_hi(r, col) * (H(h1, r, col + 1) - H(h1, r, col)));
                magnitude = std::max(magnitude, std::fabs(b[r]));
            }
            auto x = solve_dense(A, b);
            for (std::size_t r = 0; r < nr; ++r)
                h2[r * nc + col] = x[r];
        }
        std::vector<LD> ero(h0.size());
        for (std::size_t i = 0; i < h0.size(); ++i)
        {
            ero[i] = h0[i] - h2[i];
            magnitude = std::max(magnitude, std::fabs(h2[i]));
        }
        return ero;
    }

    using grid_t = fs::raster_grid<fs::xt_selector, fs::raster_connect::queen>;

    // reuse = true: the eroder is constructed with another diffusivity (other kind and value),
    // makes one step on another field, and only then receives the judged parameters through
    // set_k_coef(); the judged step is its second call
    std::vector<double> run_lib(const ACase& c, bool reuse = false)
    {
        GridSpec g;
        g.kind = RASTER;
        g.rc = QUEEN;
        g.nr = c.nr;
        g.nc = c.nc;
        g.sr = c.sr;
        g.sc = c.sc;
        for (int i = 0; i < 4; ++i)
            g.b[i] = c.border;
        auto grid = make_raster<fs::raster_connect::queen, fs::neighbors_cache<8>>(g);
        std::vector<std::size_t> shape{ static_cast<std::size_t>(c.nr), static_cast<std::size_t>(c.nc) };
        xt::xarray<double> h = xt::xarray<double>::from_shape(shape);
        for (std::size_t i = 0; i < c.h.size(); ++i)
            h.flat(i) = c.h[i];
        std::vector<double> out(c.h.size());
        auto kf = k_field(c);
        xt::xtensor<double, 2> k = xt::zeros<double>({ shape[0], shape[1] });
        for (std::size_t i = 0; i < kf.size(); ++i)
            k.flat(i) = kf[i];
        if (reuse)
        {
            xt::xtensor<double, 2> decoy_k = k * 3.0 + 0.5;
            xt::xarray<double> decoy_h = h * -2.0 + 1.0;
            std::unique_ptr<fs::diffusion_adi_eroder<grid_t>> er;
            if (c.kmode == 0)
                er = std::make_unique<fs::diffusion_adi_eroder<grid_t>>(grid, decoy_k);
            else
                er = std::make_unique<fs::diffusion_adi_eroder<grid_t>>(grid, 2.0 * c.kval + 1.0);
            (void) er->erode(decoy_h, c.dt * 0.5 + 0.25);
            if (c.kmode == 0)
                er->set_k_coef(c.kval);
            else
                er->set_k_coef(k);
            if (c.reuse == 2)
            {
                // target -> other kind -> the same target again
                (void) er->erode(h, c.dt);
                if (c.kmode == 0)
                    er->set_k_coef(decoy_k);
                else
                    er->set_k_coef(2.0 * c.kval + 1.0);
                (void) er->erode(decoy_h, c.dt);
                if (c.kmode == 0)
                    er->set_k_coef(c.kval);
                else
                    er->set_k_coef(k);
            }
            const auto& e = er->erode(h, c.dt);
            for (std::size_t i = 0; i < out.size(); ++i)
                out[i] = e.flat(i);
            return out;
        }
        if (c.kmode == 0)
        {
            fs::diffusion_adi_eroder<grid_t> er(grid, c.kval);
            const auto& e = er.erode(h, c.dt);
            for (std::size_t i = 0; i < out.size(); ++i)
                out[i] = e.flat(i);
        }
        else
        {
            fs::diffusion_adi_eroder<grid_t> er(grid, k);
            const auto& e = er.erode(h, c.dt);
            for (std::size_t i = 0; i < out.size(); ++i)
                out[i] = e.flat(i);
        }
        return out;
    }

    void judge(Ctx& ctx, const ACase& c)
    {
        ++ctx.rep.evaluations;
        ++ctx.rep.ops;
        auto V = [&](const std::string& sig, const std::string& det) { ctx.rep.violation("C14/" + sig, ctx.order(), world_str(c), det); };
        std::vector<double> got;
        try
        {
            got = run_lib(c, c.reuse != 0);
        }
        catch (const std::exception& e)
        {
            V("erode-throws", e.what());
            return;
        }
        LD mag = 0;
        std::vector<LD> want = reference(c, mag);
        std::size_t nr = static_cast<std::size_t>(c.nr), nc = static_cast<std::size_t>(c.nc);
        LD tol = 1e-10L * (1 + mag);
        std::string kcls = c.kmode == 0 ? "scalar-K" : (c.kmode == 1 ? "uniform-array-K" : "variable-K");
        bool nonzero = false;
        for (std::size_t r = 0; r < nr; ++r)
            for (std::size_t col = 0; col < nc; ++col)
            {
                std::size_t i = r * nc + col;
                bool border = r == 0 || col == 0 || r + 1 == nr || col + 1 == nc;
                if (!std::isfinite(got[i]))
                {
                    V("non-finite-erosion/" + kcls, "node " + std::to_string(i));
                    return;
                }
                if (border)
                {
                    if (got[i] != 0)
                    {
                        V("erosion-on-border", "node " + std::to_string(i) + " erosion " + hexd(got[i]));
                        return;
                    }
                    continue;
                }
                if (got[i] != 0)
                    nonzero = true;
                if (!(std::fabs(static_cast<LD>(got[i]) - want[i]) <= tol))
                {
                    V("differs-from-direct-solve/" + kcls, "node " + std::to_string(i) + " erosion " + hexd(got[i])
                                                               + " direct solve " + hexd(static_cast<double>(want[i])));
                    return;
                }
            }
        if (nonzero)
        {
            ++ctx.rep.nontrivial;
            Hasher h;
            h.seq(got);
            ctx.rep.digest(h.h);
        }
    }

    // linearity and scalar/uniform agreement on one (shape, spacing, K, dt)
    void judge_linear(Ctx& ctx, ACase base, const std::vector<double>& a, const std::vector<double>& b2)
    {
        auto V = [&](const std::string& sig, const ACase& c, const std::string& det)
        { ctx.rep.violation("C14/" + sig, ctx.order(), world_str(c), det); };
        ACase ca = base, cb = base, cs = base, ch = base;
        ca.h = a;
        cb.h = b2;
        cs.h.resize(a.size());
        ch.h.resize(a.size());
        for (std::size_t i = 0; i < a.size(); ++i)
        {
            cs.h[i] = a[i] + b2[i];
            ch.h[i] = -2.5 * a[i];
        }
        auto ea = run_lib(ca), eb = run_lib(cb), es = run_lib(cs), eh = run_lib(ch);
        ctx.rep.ops += 4;
        ++ctx.rep.evaluations;
        LD mag = 0;
        (void) reference(cs, mag);
        LD tol = 1e-9L * (1 + mag) * 4;
        for (std::size_t i = 0; i < a.size(); ++i)
        {
            if (!(std::fabs(static_cast<LD>(es[i]) - (static_cast<LD>(ea[i]) + eb[i])) <= tol))
            {
                V("not-additive", cs, "node " + std::to_string(i));
                break;
            }
            if (!(std::fabs(static_cast<LD>(eh[i]) - (-2.5L * ea[i])) <= tol))
            {
                V("not-homogeneous", ch, "node " + std::to_string(i));
                break;
            }
        }
        if (base.kmode == 0)
        {
            ACase cu = ca;
            cu.kmode = 1;
            auto eu = run_lib(cu);
            ++ctx.rep.ops;
            for (std::size_t i = 0; i < a.size(); ++i)
                if (!(std::fabs(static_cast<LD>(eu[i]) - ea[i]) <= 1e-12L * (1 + mag)))
                {
                    V("scalar-and-uniform-array-disagree", cu, "node " + std::to_string(i) + " " + hexd(eu[i]) + " vs " + hexd(ea[i]));
                    break;
                }
        }
    }

    void run(Ctx& ctx)
    {
        const bool th = ctx.thorough();
        if (ctx.replay_mode)
        {
            ACase c;
            if (!parse_world(ctx.args.replay, c))
                std::_Exit(2);
            ++ctx.rep.worlds;
            judge(ctx, c);
            // the linearity / agreement checks replay through the same entry with a partner field
            std::vector<double> partner(c.h.size());
            for (std::size_t i = 0; i < partner.size(); ++i)
                partner[i] = static_cast<double>((i * 3 + 1) % 5);
            judge_linear(ctx, c, c.h, partner);
            return;
        }
        std::vector<std::array<int, 2>> shapes = { { 3, 3 }, { 3, 4 }, { 4, 3 }, { 4, 5 }, { 5, 4 } };
        if (th)
        {
            shapes.push_back({ 5, 5 });
            shapes.push_back({ 3, 6 });
            shapes.push_back({ 6, 3 });
        }
        std::vector<std::array<double, 2>> spacings = { { 1, 1 }, { 1, 2 }, { 0.5, 3 } };
        std::vector<double> kvals = { 1e-3, 1.0, 1e3 };
        std::vector<double> dts = { 0.0, 1e-3, 1.0, 1e6 };
        std::vector<int> borders = { FIXED_VALUE, CORE, LOOPED };
        bool sampled = false;
        for (auto& sh : shapes)
            for (auto& sp : spacings)
                for (int border : borders)
                    for (double kval : kvals)
                        for (double dt : dts)
                            for (int kmode = 0; kmode < 3; ++kmode)
                            {
                                std::size_t n = static_cast<std::size_t>(sh[0] * sh[1]);
                                // variable K: every {1,4} assignment on the 3x4 grid (quick: every
                                // 37th), three fixed assignments elsewhere
                                std::vector<u64> kpats = { 0 };
                                if (kmode == 2)
                                {
                                    kpats.clear();
                                    if (sh[0] == 3 && sh[1] == 4 && border == FIXED_VALUE && dt == 1.0)
                                        for (u64 p = 1; p < (u64(1) << n); p += (th ? 1 : 37))
                                            kpats.push_back(p);
                                    else
                                        kpats = { 0x5a5a5a5a5a5aull, 0x0f0f33ccaa55ull, 1ull << (n / 2) };
                                }
                                for (u64 kpat : kpats)
                                {
                                    if (!ctx.mine())
                                        continue;
                                    if (ctx.out_of_time())
                                        return;
                                    ++ctx.rep.worlds;
                                    ACase c;
                                    c.nr = sh[0];
                                    c.nc = sh[1];
                                    c.sr = sp[0];
                                    c.sc = sp[1];
                                    c.border = border;
                                    c.kmode = kmode;
                                    c.kval = kval;
                                    c.kpat = kpat;
                                    c.dt = dt;
                                    alarm(60);
                                    ctx.world_fn = [&]() { return world_str(c); };
                                    // every unit basis field
                                    std::vector<std::vector<double>> basis;
                                    for (std::size_t i = 0; i < n; ++i)
                                    {
                                        c.h.assign(n, 0.0);
                                        c.h[i] = 1.0;
                                        basis.push_back(c.h);
                                        c.reuse = 0;
                                        judge(ctx, c);
                                        if ((i % 3) == 1)
                                        {
                                            c.reuse = 1;
                                            judge(ctx, c);
                                            c.reuse = 2;
                                            judge(ctx, c);
                                            c.reuse = 0;
                                        }
                                    }
                                    // scaled / shifted copies and a rough field
                                    c.h.assign(n, 7.25);
                                    judge(ctx, c);
                                    for (std::size_t i = 0; i < n; ++i)
                                        c.h[i] = 100.0 * static_cast<double>((i * 7 + 3) % 5) - 150.0;
                                    judge(ctx, c);
                                    // pair sums / homogeneity (all pairs on the small shapes)
                                    if (n <= 12)
                                    {
                                        for (std::size_t i = 0; i < n; ++i)
                                            for (std::size_t j = i + 1; j < n; j += (th ? 1 : 3))
                                                judge_linear(ctx, c, basis[i], basis[j]);
                                    }
                                    else
                                        judge_linear(ctx, c, basis[n / 2], basis[n / 2 + 1]);
                                    // all 3-level patterns on 3x3 for one parameter point per K mode
                                    if (n == 9 && sp[0] == 1 && sp[1] == 2 && border == FIXED_VALUE && kval == 1.0 && dt == 1.0)
                                    {
                                        std::vector<int> pat(n, 0);
                                        u64 pi = 0;
                                        do
                                        {
                                            if ((pi++ % (th ? 1 : 5)) != 0)
                                                continue;
                                            for (std::size_t i = 0; i < n; ++i)
                                                c.h[i] = static_cast<double>(pat[i]);
                                            judge(ctx, c);
                                        } while (next_pattern(pat, 3));
                                    }
                                    alarm(0);
                                    if (!sampled && ctx.shard == 0 && kmode == 2)
                                    {
                                        ctx.rep.sample(world_str(c));
                                        sampled = true;
                                    }
                                }
                            }
    }
}

int main(int argc, char** argv)
{
    return sse_main(argc, argv, { "C14" }, [&](Ctx& ctx) { run(ctx); });
}
