// SSE harness for C15: the basin graph is a minimum spanning tree over the lowest passes.
#include "flow_oracles.hpp"
#include "fastscapelib/flow/basin_graph.hpp"

using namespace sse;

namespace
{
    GridSpec raster_spec(int rc, int nr, int nc, const char* borders, double sr, double sc, bool cache)
    {
        GridSpec g;
        g.kind = RASTER;
        g.rc = rc;
        g.nr = nr;
        g.nc = nc;
        g.sr = sr;
        g.sc = sc;
        g.cache = cache;
        for (int i = 0; i < 4; ++i)
            g.b[i] = status_from_char(borders[i]);
        return g;
    }
    GridSpec profile_spec(int n, const char* borders, double sp, bool cache)
    {
        GridSpec g;
        g.kind = PROFILE;
        g.nr = 1;
        g.nc = n;
        g.sc = sp;
        g.cache = cache;
        g.b[0] = status_from_char(borders[0]);
        g.b[1] = status_from_char(borders[1]);
        return g;
    }
    GridSpec mesh_spec(const char* cells, int jitter, int vorder, int smode)
    {
        GridSpec g;
        g.kind = TRIMESH;
        for (int i = 0; i < 4; ++i)
            g.cells[i] = cells[i] - '0';
        g.jitter = jitter;
        g.vorder = vorder;
        g.smode = smode;
        g.cache = false;
        return g;
    }

    struct BCase
    {
        std::vector<double> elev, elev2;
        bool has_mask = false;
        std::vector<int> mask;
        bool default_base = true;
        std::vector<std::size_t> base;
        int method = 0;     // 0 kruskal, 1 boruvka
        int threshold = 16;  // Boruvka low-degree threshold (16 = shipped value)
    };

    std::string world_str(const GridSpec& g, const BCase& c)
    {
        std::ostringstream o;
        o << "g=" << g.str() << ";e=";
        for (std::size_t i = 0; i < c.elev.size(); ++i)
            o << (i ? " " : "") << hexd(c.elev[i]);
        o << ";e2=";
        for (std::size_t i = 0; i < c.elev2.size(); ++i)
            o << (i ? " " : "") << hexd(c.elev2[i]);
        o << ";m=";
        if (!c.has_mask)
            o << "-";
        else
            for (int b : c.mask)
                o << (b ? '1' : '0');
        o << ";b=";
        if (c.default_base)
            o << "d";
        else
            for (std::size_t i = 0; i < c.base.size(); ++i)
                o << (i ? " " : "") << c.base[i];
        o << ";method=" << (c.method ? "boruvka" : "kruskal") << ";thr=" << c.threshold;
        return o.str();
    }

    bool parse_world(const std::string& s, GridSpec& g, BCase& c)
    {
        auto kv = parse_kv(s);
        if (!kv.count("g"))
            return false;
        g = GridSpec::parse(kv["g"]);
        for (auto& t : split(kv["e"], ' '))
            if (!t.empty())
                c.elev.push_back(unhexd(t));
        for (auto& t : split(kv["e2"], ' '))
            if (!t.empty())
                c.elev2.push_back(unhexd(t));
        std::string m = kv["m"];
        c.has_mask = m != "-";
        if (c.has_mask)
            for (char ch : m)
                c.mask.push_back(ch == '1');
        std::string b = kv["b"];
        c.default_base = b == "d";
        if (!c.default_base)
            for (auto& t : split(b, ' '))
                if (!t.empty())
                    c.base.push_back(static_cast<std::size_t>(std::atol(t.c_str())));
        c.method = kv["method"] == "boruvka";
        c.threshold = std::atoi(kv["thr"].c_str());
        return true;
    }

    struct UF
    {
        std::vector<std::size_t> p;
        explicit UF(std::size_t n)
            : p(n)
        {
            for (std::size_t i = 0; i < n; ++i)
                p[i] = i;
        }
        std::size_t find(std::size_t x)
        {
            while (p[x] != x)
                x = p[x] = p[p[x]];
            return x;
        }
        bool unite(std::size_t a, std::size_t b)
        {
            a = find(a);
            b = find(b);
            if (a == b)
                return false;
            p[a] = b;
            return true;
        }
    };

    template <class G>
    struct Runner
    {
        Ctx& ctx;
        G& grid;
        const GridSpec& gs;
        const RefGeom& geo;
        using FG = fs::flow_graph<G>;
        using impl_t = typename FG::impl_type;
        using BG = fs::basin_graph<impl_t>;

        void check(const BG& bg, const impl_t& im, const std::vector<double>& elev, const std::vector<char>& masked,
                   const std::vector<char>& base, const BCase& c, const char* stage, bool count)
        {
            std::size_t n = static_cast<std::size_t>(geo.n);
            std::string w;
            std::string meth = c.method ? "boruvka" : "kruskal";
            auto V = [&](const std::string& sig, const std::string& det)
            {
                if (w.empty())
                    w = world_str(gs, c);
                ctx.rep.violation("C15/" + sig, ctx.order(), w, std::string(stage) + ": " + det);
            };
            const std::size_t none = std::numeric_limits<std::size_t>::max();
            std::vector<std::size_t> lab(im.basins().begin(), im.basins().end());
            const auto& outlets = im.outlets();
            std::size_t nb = outlets.size();
            if (bg.basins_count() != nb)
                V("basins-count-differs", "");
            std::vector<char> inner(nb, 0);
            std::size_t n_outer = 0, first_outer = none;
            for (std::size_t k = 0; k < nb; ++k)
            {
                inner[k] = !base[outlets[k]];
                if (!inner[k])
                {
                    ++n_outer;
                    if (first_outer == none)
                        first_outer = k;
                }
            }
            // reference passes
            std::map<std::pair<std::size_t, std::size_t>, double> ref_pass;
            for (std::size_t a = 0; a < n; ++a)
            {
                if (masked[a])
                    continue;
                for (auto& nbr : geo.nb[a])
                {
                    std::size_t b2 = static_cast<std::size_t>(nbr.idx);
                    if (masked[b2] || lab[a] == lab[b2] || lab[a] == none || lab[b2] == none)
                        continue;
                    if (!inner[lab[a]] && !inner[lab[b2]])
                        continue;
                    auto key = std::make_pair(std::min(lab[a], lab[b2]), std::max(lab[a], lab[b2]));
                    double pe = std::max(elev[a], elev[b2]);
                    auto it = ref_pass.find(key);
                    if (it == ref_pass.end() || pe < it->second)
                        ref_pass[key] = pe;
                }
            }
            // library edges
            const auto& edges = bg.edges();
            std::map<std::pair<std::size_t, std::size_t>, std::size_t> seen;
            std::size_t root_edges = 0;
            std::size_t root = none;
            bool edges_ok = true;
            for (std::size_t ei = 0; ei < edges.size(); ++ei)
            {
                const auto& e = edges[ei];
                if (e.link[0] >= nb || e.link[1] >= nb)
                {
                    V("edge-basin-index-out-of-range", "edge " + std::to_string(ei));
                    edges_ok = false;
                    break;
                }
                if (e.pass[0] == none || e.pass[1] == none)
                {
                    // root link between two outer basins
                    if (inner[e.link[0]] || inner[e.link[1]] || e.pass[0] != e.pass[1])
                    {
                        V("root-edge-malformed", "edge " + std::to_string(ei));
                        edges_ok = false;
                    }
                    ++root_edges;
                    continue;
                }
                auto key = std::make_pair(std::min(e.link[0], e.link[1]), std::max(e.link[0], e.link[1]));
                if (seen.count(key))
                {
                    V("duplicate-edge", "basins " + std::to_string(key.first) + "," + std::to_string(key.second));
                    edges_ok = false;
                    continue;
                }
                seen[key] = ei;
                auto it = ref_pass.find(key);
                if (it == ref_pass.end())
                {
                    V("edge-between-non-adjacent-basins", "basins " + std::to_string(key.first) + "," + std::to_string(key.second));
                    edges_ok = false;
                    continue;
                }
                if (e.pass_elevation != it->second)
                {
                    V("pass-not-lowest/" + std::string(e.pass_elevation > it->second ? "higher" : "lower"),
                      "basins " + std::to_string(key.first) + "," + std::to_string(key.second) + " pass elevation "
                          + hexd(e.pass_elevation) + " lowest " + hexd(it->second));
                    edges_ok = false;
                }
                // the two pass nodes: one in each basin (matching link order), neighbours,
                // realising the pass elevation and length
                std::size_t p0 = e.pass[0], p1 = e.pass[1];
                bool okp = p0 < n && p1 < n && !masked[p0] && !masked[p1] && lab[p0] == e.link[0] && lab[p1] == e.link[1]
                           && std::max(elev[p0], elev[p1]) == e.pass_elevation;
                bool isnb = false;
                if (okp)
                    for (auto& nbr : geo.nb[p0])
                        if (static_cast<std::size_t>(nbr.idx) == p1 && nbr.dist == e.pass_length)
                            isnb = true;
                if (!okp || !isnb)
                {
                    V("pass-nodes-inconsistent", "edge " + std::to_string(ei) + " pass " + std::to_string(p0) + ","
                                                     + std::to_string(p1));
                    edges_ok = false;
                }
            }
            for (auto& kv : ref_pass)
                if (!seen.count(kv.first))
                {
                    V("adjacent-basins-not-connected",
                      "basins " + std::to_string(kv.first.first) + "," + std::to_string(kv.first.second));
                    edges_ok = false;
                    break;
                }
            if (n_outer > 0 && root_edges != n_outer - 1)
            {
                V("outer-basins-not-joined-to-one-root", std::to_string(root_edges) + " root edges for "
                                                             + std::to_string(n_outer) + " outer basins");
                edges_ok = false;
            }
            if (!edges_ok)
                return;
            // tree: acyclic, spans what the edges connect
            const auto& tree = bg.tree();
            UF uf_tree(nb), uf_all(nb);
            std::vector<double> tw;
            std::size_t tree_root_edges = 0;
            for (auto ti : tree)
            {
                if (ti >= edges.size())
                {
                    V("tree-edge-index-out-of-range/" + meth, "");
                    return;
                }
                const auto& e = edges[ti];
                if (!uf_tree.unite(e.link[0], e.link[1]))
                {
                    V("tree-has-cycle/" + meth, "edge " + std::to_string(ti));
                    return;
                }
                if (e.pass[0] == none)
                    ++tree_root_edges;
                else
                    tw.push_back(e.pass_elevation);
            }
            for (const auto& e : edges)
                uf_all.unite(e.link[0], e.link[1]);
            std::size_t comp_all = 0, comp_tree = 0;
            for (std::size_t k = 0; k < nb; ++k)
            {
                if (uf_all.find(k) == k)
                    ++comp_all;
                if (uf_tree.find(k) == k)
                    ++comp_tree;
            }
            if (comp_all != comp_tree || tree.size() != nb - comp_all)
            {
                V("tree-not-spanning/" + meth, std::to_string(tree.size()) + " tree edges, " + std::to_string(nb) + " basins, "
                                                   + std::to_string(comp_all) + " component(s) of the edge graph");
                return;
            }
            if (tree_root_edges != root_edges)
                V("root-edge-missing-from-tree/" + meth, "");
            // reference minimum spanning forest: multiset of edge weights is unique
            std::vector<std::pair<double, std::pair<std::size_t, std::size_t>>> re;
            for (auto& kv : ref_pass)
                re.push_back({ kv.second, kv.first });
            std::sort(re.begin(), re.end());
            UF uf_ref(nb);
            // root links have weight -infinity: contract all outer basins first
            for (std::size_t k = 0; k < nb; ++k)
                if (!inner[k] && first_outer != none)
                    uf_ref.unite(k, first_outer);
            std::vector<double> rw;
            for (auto& x : re)
                if (uf_ref.unite(x.second.first, x.second.second))
                    rw.push_back(x.first);
            std::sort(tw.begin(), tw.end());
            std::sort(rw.begin(), rw.end());
            if (tw != rw)
            {
                double st = 0, sr = 0;
                for (double v : tw)
                    st += v;
                for (double v : rw)
                    sr += v;
                V("tree-not-minimum/" + meth, "tree weights sum " + hexd(st) + " minimum " + hexd(sr) + " ("
                                                  + std::to_string(tw.size()) + " edges)");
                return;
            }
            // orientation: from the root outwards every tree edge is (nearer, farther)
            if (first_outer != none)
            {
                root = lab[outlets[first_outer]];
                std::vector<std::vector<std::size_t>> adj(nb);
                for (auto ti : tree)
                {
                    adj[edges[ti].link[0]].push_back(ti);
                    adj[edges[ti].link[1]].push_back(ti);
                }
                std::vector<std::size_t> dist(nb, none);
                std::vector<std::size_t> st{ first_outer };
                dist[first_outer] = 0;
                while (!st.empty())
                {
                    std::size_t u = st.back();
                    st.pop_back();
                    for (auto ti : adj[u])
                    {
                        const auto& e = edges[ti];
                        std::size_t v = e.link[0] == u ? e.link[1] : e.link[0];
                        if (dist[v] != none)
                            continue;
                        dist[v] = dist[u] + 1;
                        st.push_back(v);
                        if (!(e.link[0] == u && e.link[1] == v))
                        {
                            V("tree-edge-not-oriented-from-root/" + meth,
                              "edge " + std::to_string(ti) + " link " + std::to_string(e.link[0]) + "->"
                                  + std::to_string(e.link[1]) + " but " + std::to_string(u) + " is nearer the root");
                            return;
                        }
                    }
                }
                (void) root;
            }
            if (count)
            {
                if (nb >= 2)
                {
                    ++ctx.rep.nontrivial;
                    Hasher h;
                    h.seq(lab);
                    h.seq(rw);
                    h.pod(c.method);
                    ctx.rep.digest(h.h);
                }
                {
                    std::vector<std::size_t> deg(nb, 0);
                    for (const auto& e : edges)
                    {
                        ++deg[e.link[0]];
                        ++deg[e.link[1]];
                    }
                    bool large = false;
                    for (auto dg : deg)
                        if (dg > static_cast<std::size_t>(c.threshold))
                            large = true;
                    if (large && c.method == 1)
                        ctx.rep.hit(c.threshold == 16 ? "boruvka-large-degree-path/shipped-threshold"
                                                      : "boruvka-large-degree-path/lowered-threshold");
                }
                ctx.rep.hit("inner-basins", static_cast<u64>(nb - n_outer));
                ctx.rep.hit("tree-edges", static_cast<u64>(tree.size()));
                if (c.method == 1)
                    ctx.rep.hit("boruvka-steps", static_cast<u64>(bg.perf_boruvka()));
            }
        }

        void run(const BCase& c)
        {
            std::size_t n = static_cast<std::size_t>(geo.n);
            // domain: at least one unmasked base level
            std::vector<char> masked(n, 0), base(n, 0);
            if (c.has_mask)
                for (std::size_t i = 0; i < n; ++i)
                    masked[i] = c.mask[i] ? 1 : 0;
            Built<G> b = build_graph(grid, Program::parse("single"));
            auto& fg = *b.fg;
            if (!c.default_base)
                fg.set_base_levels(c.base);
            if (c.has_mask)
                fg.set_mask(make_mask(grid, c.mask));
            bool any = false;
            for (auto bi : fg.base_levels())
                if (bi < n)
                {
                    base[bi] = 1;
                    if (!masked[bi])
                        any = true;
                }
            if (!any)
            {
                ++ctx.rep.skipped;
                return;
            }
            ++ctx.rep.evaluations;
            BG bg(fg.impl(), c.method ? fs::mst_method::boruvka : fs::mst_method::kruskal);
            bg.m_max_low_degree = static_cast<std::size_t>(c.threshold);
            const std::vector<double>* seq[3] = { &c.elev, c.elev2.empty() ? &c.elev : &c.elev2, &c.elev };
            static const char* names[3] = { "update 1", "update 2 (other field, same object)", "update 3 (first field again)" };
            int rounds = c.threshold == 16 ? 3 : 1;  // artificial thresholds: fresh object per world
            for (int k = 0; k < rounds; ++k)
            {
                auto fld = make_field(grid, *seq[k]);
                fg.update_routes(fld);
                fg.impl_ptr()->compute_basins();
                bg.update_routes(fld);
                ctx.rep.ops += 2;
                if (c.threshold != 16 && c.method == 1 && !bg.m_large_degrees.empty())
                {
                    // the algorithm's standing assumption (some remaining basin has a degree
                    // <= threshold) fails for this artificial threshold: not judged
                    ++ctx.rep.skipped;
                    return;
                }
                if (c.method == 1 && !bg.m_large_degrees.empty())
                    ctx.rep.hit("default-threshold-large-degree-list-non-empty-at-exit");
                check(bg, fg.impl(), *seq[k], masked, base, c, names[k], true);
            }
        }
    };

    struct PlanEntry
    {
        GridSpec g;
        int k;
        int dev;     // 0 none, 1 one deviation
        u64 stride;
        std::vector<int> thresholds;
        bool interior_only = false;  // patterns over interior nodes only (border fixed at level 0)
    };

    std::vector<PlanEntry> make_plan(const Args& a)
    {
        const bool th = a.thorough();
        std::vector<PlanEntry> plan;
        auto add = [&](const GridSpec& g, int k, int dev, u64 stride, std::vector<int> thr, bool interior = false)
        {
            if (!family_compiled(g.family()) || (!a.family.empty() && a.family != g.family()))
                return;
            plan.push_back({ g, k, dev, stride, thr, interior });
        };
        std::vector<int> thr_all = { 16, 1, 2, 3 };
        add(profile_spec(6, "VV", 1.0, true), 3, 1, 1, thr_all);
        add(profile_spec(6, "LL", 2.0, false), 3, 1, 1, { 16, 1 });
        add(profile_spec(8, "VC", 1.0, true), 3, th ? 1 : 0, 1, { 16, 2 });
        for (int rc : { ROOK, QUEEN, BISHOP })
        {
            add(raster_spec(rc, 3, 3, "VVVV", 1, 1, true), 3, 1, 1, thr_all);
            add(raster_spec(rc, 3, 3, "CCCC", 1, 2, true), 3, 1, th ? 1 : 3, { 16, 1 });
            add(raster_spec(rc, 3, 3, "LLVV", 1, 1, rc != QUEEN), 3, th ? 1 : 0, 1, { 16, 2 });
            add(raster_spec(rc, 3, 4, "VVVV", 1, 1, true), 3, 0, th ? 1 : 9, { 16, 1, 3 });
            add(raster_spec(rc, 4, 4, "VVVV", 1, 1, true), 2, th ? 1 : 0, 1, { 16, 2 });
            if (th)
            {
                add(raster_spec(rc, 4, 4, "LLLL", 1, 1, true), 2, 1, 1, { 16, 1 });
                add(raster_spec(rc, 3, 3, "VVVV", 1, 1, true), 4, 0, 1, { 16, 1 });
            }
            // Boruvka's large-degree / bucket path with the shipped threshold: 20 border base
            // levels = 20 outer basins, root degree 19; every 2-level interior pattern
            if (rc != BISHOP)
                add(raster_spec(rc, 6, 6, "VVVV", 1, 1, true), 2, 0, th ? 1 : 5, { 16 }, true);
        }
        add(mesh_spec("1111", 1, 0, 0), 3, 1, 1, thr_all);
        add(mesh_spec("2121", 2, 3, 2), 3, 1, th ? 1 : 3, { 16, 1 });
        if (th)
            add(mesh_spec("1221", 3, 1, 0), 3, 1, 1, { 16, 2 });
        return plan;
    }

    template <class G>
    void run_entry(Ctx& ctx, G& grid, const PlanEntry& e, const RefGeom& geo)
    {
        Runner<G> runner{ ctx, grid, e.g, geo };
        std::size_t n = static_cast<std::size_t>(geo.n);
        std::vector<std::size_t> free_nodes;
        for (std::size_t i = 0; i < n; ++i)
            if (!e.interior_only || geo.status[i] == CORE)
                free_nodes.push_back(i);
        bool has_default = false;
        for (int s : geo.status)
            if (s == FIXED_VALUE)
                has_default = true;
        struct Dev
        {
            int mask_node = -1;
            std::vector<std::size_t> base;
            bool default_base = true;
        };
        std::vector<Dev> devs;
        if (has_default)
            devs.push_back({});
        if (e.dev >= 1 || !has_default)
        {
            for (std::size_t b = 0; b < n; b += (n > 9 ? 3 : 1))
            {
                Dev d;
                d.default_base = false;
                d.base = { b };
                devs.push_back(d);
            }
            if (has_default && e.dev >= 1)
                for (std::size_t m = 0; m < n; m += (n > 9 ? 3 : 1))
                {
                    Dev d;
                    d.mask_node = static_cast<int>(m);
                    devs.push_back(d);
                }
        }
        const auto& vm = value_maps();
        std::vector<int> pat(free_nodes.size(), 0);
        u64 pidx = 0;
        bool sampled = false;
        do
        {
            if ((pidx++ % e.stride) != 0)
                continue;
            for (auto& d : devs)
            {
                if (!ctx.mine())
                    continue;
                if ((ctx.rep.worlds & 0xff) == 0 && ctx.out_of_time())
                    return;
                ++ctx.rep.worlds;
                for (int vmi : { 0, 3 })
                {
                    BCase c;
                    c.elev.assign(n, vm[static_cast<std::size_t>(vmi)][0]);
                    c.elev2.assign(n, vm[static_cast<std::size_t>(vmi)][0]);
                    for (std::size_t q = 0; q < free_nodes.size(); ++q)
                    {
                        c.elev[free_nodes[q]] = vm[static_cast<std::size_t>(vmi)][static_cast<std::size_t>(pat[q])];
                        c.elev2[free_nodes[q]]
                            = vm[static_cast<std::size_t>(vmi)][static_cast<std::size_t>((pat[free_nodes.size() - 1 - q] + 1) % e.k)];
                    }
                    if (d.mask_node >= 0)
                    {
                        c.has_mask = true;
                        c.mask.assign(n, 0);
                        c.mask[static_cast<std::size_t>(d.mask_node)] = 1;
                    }
                    c.default_base = d.default_base;
                    c.base = d.base;
                    for (int method = 0; method < 2; ++method)
                        for (int thr : e.thresholds)
                        {
                            if (method == 0 && thr != 16)
                                continue;
                            if (vmi != 0 && thr != 16)
                                continue;
                            c.method = method;
                            c.threshold = thr;
                            alarm(20);
                            ctx.world_fn = [&]() { return world_str(e.g, c); };
                            ctx.current_stage = method ? "boruvka" : "kruskal";
                            runner.run(c);
                            alarm(0);
                            if (!sampled && ctx.shard == 0 && pidx > 40)
                            {
                                ctx.rep.sample(world_str(e.g, c));
                                sampled = true;
                            }
                        }
                }
            }
        } while (next_pattern(pat, e.k));
    }
}

int main(int argc, char** argv)
{
    return sse_main(argc, argv, { "C15" },
                       [&](Ctx& ctx)
                       {
                           const Args& a = ctx.args;
                           if (ctx.replay_mode)
                           {
                               GridSpec g;
                               BCase c;
                               if (!parse_world(a.replay, g, c))
                                   std::_Exit(2);
                               RefGeom geo = ref_geometry(g);
                               bool ok = with_grid(g,
                                                   [&](auto& grid)
                                                   {
                                                       using G = std::decay_t<decltype(grid)>;
                                                       Runner<G> r{ ctx, grid, g, geo };
                                                       ++ctx.rep.worlds;
                                                       r.run(c);
                                                   });
                               if (!ok)
                                   ctx.rep.bounds["replay"] = "family-not-in-this-binary";
                               return;
                           }
                           auto plan = make_plan(a);
                           ctx.rep.bounds["plan_entries"] = std::to_string(plan.size());
                           for (auto& e : plan)
                           {
                               RefGeom geo = ref_geometry(e.g);
                               with_grid(e.g,
                                         [&](auto& grid)
                                         {
                                             using G = std::decay_t<decltype(grid)>;
                                             run_entry<G>(ctx, grid, e, geo);
                                         });
                               if (ctx.rep.deadline_hit)
                                   break;
                           }
                       });
}
