// MCSCHED harness for C11, second part: *every* sequence of pool operations
// (run_blocks, pause, resume, resize, destruction) up to a length bound, each one explored
// over all schedules within a preemption bound.  The pool header is compiled against the
// scheduler shims and with compiler-instrumented memory accesses (-fsanitize=thread, linked
// against engine/mcsched/mc_tsan.cpp), so the pool's own plain members (p_jobs, m_paused,
// m_started, m_size, the job vectors) and the job inputs / outputs are all seen by the
// happens-before detector.  libstdc++ assertions are on: an out-of-range flag index aborts
// the execution and is reported as a crash with the schedule attached.
//
// Judged per execution: every run_blocks executed each index exactly once with the right
// value, in disjoint contiguous blocks, at most one block per runner id below the pool
// size, all callbacks finished before it returned; no hang; no data race; no crash.
#include "common.hpp"
#include "mc_explore.hpp"
#include "mc_shims.hpp"
#include "mc_sig.hpp"

#include <cassert>
#include <cstdint>
#include <atomic>
#include <chrono>
#include <condition_variable>
#include <functional>
#include <future>
#include <iostream>
#include <memory>
#include <mutex>
#include <queue>
#include <thread>
#include <type_traits>
#include <vector>

#define atomic verif_atomic
#define atomic_bool verif_atomic_bool
#define mutex verif_mutex
#define condition_variable verif_cv
#define thread verif_thread
#include "fastscapelib/utils/thread_pool.hpp"
#undef atomic
#undef atomic_bool
#undef mutex
#undef condition_variable
#undef thread

using namespace sse;

namespace
{
    // op codes:  r<n> run_blocks(0,n)   m<n> run_blocks(0,n,min_size=2)   p pause   u resume   z<t> resize(t)
    struct Seq
    {
        int init = 2;
        std::vector<std::string> ops;
        std::string str() const
        {
            std::string s = "P" + std::to_string(init) + ":";
            for (std::size_t i = 0; i < ops.size(); ++i)
                s += (i ? "," : "") + ops[i];
            return s;
        }
        static Seq parse(const std::string& s)
        {
            Seq q;
            auto c = s.find(':');
            q.init = std::atoi(s.substr(1, c - 1).c_str());
            for (auto& o : split(s.substr(c + 1), ','))
                if (!o.empty())
                    q.ops.push_back(o);
            return q;
        }
    };

    constexpr std::size_t NMAX = 8, RMAX = 16;

    void run_seq(const Seq& sq)
    {
        // plain arrays: every access below is compiler-instrumented
        static int in[NMAX], out[NMAX], cnt[NMAX];
        static std::size_t blk_a[RMAX], blk_b[RMAX];
        static int blk_started[RMAX], blk_finished[RMAX];
        const char* err = nullptr;
        mc::set_instrumentation(true);
        {
            fastscapelib::thread_pool<std::size_t> pool(static_cast<std::size_t>(sq.init));
            int round = 0;
            for (const auto& op : sq.ops)
            {
                mc::set_instrumentation(false);
                mc::note(op);
                mc::set_instrumentation(true);
                const int arg = op.size() > 1 ? std::atoi(op.c_str() + 1) : 0;
                switch (op[0])
                {
                    case 'p':
                        pool.pause();
                        break;
                    case 'u':
                        pool.resume();
                        break;
                    case 'z':
                        pool.resize(static_cast<std::size_t>(arg));
                        break;
                    case 'r':
                    case 'm':
                    {
                        ++round;
                        const std::size_t n = static_cast<std::size_t>(arg);
                        const std::size_t psize = pool.size();
                        for (std::size_t i = 0; i < n; ++i)
                        {
                            cnt[i] = 0;
                            in[i] = 10 * round + static_cast<int>(i);
                        }
                        for (std::size_t r = 0; r < RMAX; ++r)
                            blk_started[r] = blk_finished[r] = 0;
                        auto f = [n](std::size_t runner, std::size_t a, std::size_t b)
                        {
                            if (runner < RMAX)
                            {
                                blk_started[runner]++;
                                blk_a[runner] = a;
                                blk_b[runner] = b;
                            }
                            for (auto i = a; i < b && i < n; ++i)
                            {
                                out[i] = in[i] + 1;
                                cnt[i]++;
                            }
                            if (runner < RMAX)
                                blk_finished[runner]++;
                        };
                        pool.run_blocks(std::size_t(0), n, f, op[0] == 'm' ? std::size_t(2) : std::size_t(0));
                        for (std::size_t i = 0; i < n; ++i)
                        {
                            if (cnt[i] != 1)
                                err = cnt[i] == 0 ? "index-not-executed" : "index-executed-more-than-once";
                            else if (out[i] != 10 * round + static_cast<int>(i) + 1)
                                err = "stale-or-wrong-output";
                        }
                        // blocks: one per runner id < pool size, contiguous partition in runner order
                        std::size_t pos = 0, nblk = 0;
                        for (std::size_t r = 0; r < RMAX; ++r)
                        {
                            if (blk_started[r] != blk_finished[r])
                                err = "run_blocks-returned-while-callbacks-running";
                            if (blk_started[r] == 0)
                                continue;
                            ++nblk;
                            if (blk_started[r] > 1 || r >= psize)
                                err = "runner-id-reused-or-out-of-range";
                            if (blk_a[r] != pos || blk_b[r] <= blk_a[r] || blk_b[r] > n)
                                err = "blocks-not-a-contiguous-partition";
                            pos = blk_b[r];
                        }
                        if (n > 0 && pos != n && !err)
                            err = "blocks-do-not-cover-the-range";
                        if (nblk > psize)
                            err = "more-blocks-than-workers";
                        break;
                    }
                    default:
                        break;
                }
                if (err)
                {
                    mc::set_instrumentation(false);
                    mc::fail("ASSERT", err);
                }
            }
            mc::set_instrumentation(false);
            mc::note("destroy");
            mc::set_instrumentation(true);
        }
        mc::set_instrumentation(false);
        mc::note("done");
    }

    std::string sched_str(const std::vector<int>& s)
    {
        std::string o;
        for (std::size_t i = 0; i < s.size(); ++i)
            o += (i ? " " : "") + std::to_string(s[i]);
        return o;
    }

    // all sequences over `alpha` of length 1..maxlen, shortest first, alphabet order
    void enumerate(const std::vector<std::string>& alpha, int maxlen, std::vector<std::vector<std::string>>& out)
    {
        std::vector<std::vector<std::string>> layer{ {} };
        for (int l = 1; l <= maxlen; ++l)
        {
            std::vector<std::vector<std::string>> next;
            for (auto& s : layer)
                for (auto& a : alpha)
                {
                    auto t = s;
                    t.push_back(a);
                    next.push_back(t);
                }
            out.insert(out.end(), next.begin(), next.end());
            layer.swap(next);
        }
    }

    // sequences that never start a worker thread have a single schedule; they are still run
    // (one execution) because they exercise resize / destruction of an unstarted pool
    bool starts_threads(const std::vector<std::string>& ops)
    {
        for (auto& o : ops)
            if (o[0] == 'r' || o[0] == 'm' || o[0] == 'p')
                return true;
        return false;
    }
}

int main(int argc, char** argv)
{
    Args a = parse_args(argc, argv);
    if (a.property != "C11")
    {
        std::fprintf(stderr, "mc_poolseq serves C11\n");
        return 2;
    }
    auto t0 = std::chrono::steady_clock::now();
    Report rep;
    if (!a.replay.empty())
    {
        auto kv = parse_kv(a.replay);
        if (!kv.count("seq"))
        {
            rep.bounds["replay"] = "family-not-in-this-binary";
            std::fputs(rep.to_json(a, 0.0).c_str(), stdout);
            return 0;
        }
        Seq sq = Seq::parse(kv["seq"]);
        if (kv.count("explore"))
        {
            // diagnostic: explore one sequence and print the statistics
            mc::ExploreConfig cfg;
            cfg.bound = std::atoi(kv["bound"].c_str());
            cfg.cache = !kv.count("nocache");
            cfg.jobs = a.jobs;
            cfg.deadline_s = 600;
            mc::ExploreStats st = mc::explore([&]() { run_seq(sq); }, cfg, mcsig::signatures);
            double w = std::chrono::duration<double>(std::chrono::steady_clock::now() - t0).count();
            std::printf("%s bound=%d complete=%d executions=%ld states=%zu max_steps=%ld max_cp=%ld pruned=%ld wall=%.2fs\n", sq.str().c_str(), cfg.bound,
                        int(st.complete), st.executions, st.states.size(), st.max_steps, st.max_choice_points, st.pruned_points, w);
            for (auto& kv2 : st.bad)
                std::printf("  BAD %s x%ld sched=%s\n", kv2.first.c_str(), kv2.second.count, sched_str(kv2.second.schedule).c_str());
            return 0;
        }
        std::vector<int> sched;
        for (auto& t : split(kv["sched"], ' '))
            if (!t.empty())
                sched.push_back(std::atoi(t.c_str()));
        int spur = kv.count("spurious") ? std::atoi(kv["spurious"].c_str()) : 0;
        mc::Result r = mc::run_schedule([&]() { run_seq(sq); }, sched, true, spur);
        ++rep.worlds;
        ++rep.evaluations;
        for (auto& sg : mcsig::signatures(r))
            rep.violation("C11/" + sg, 0, a.replay, r.verdict + ": " + r.detail);
        if (std::getenv("MC_TRACE"))
            for (auto& l : r.trace)
                std::fprintf(stderr, "%s\n", l.c_str());
        std::fputs(rep.to_json(a, 0.0).c_str(), stdout);
        return 0;
    }
    const bool th = a.thorough();
    struct Job
    {
        Seq sq;
        int bound;
        int spurious;
    };
    std::vector<Job> jobs;
    auto add_all = [&](int init, const std::vector<std::string>& alpha, int maxlen, int bound, int spurious)
    {
        std::vector<std::vector<std::string>> seqs;
        enumerate(alpha, maxlen, seqs);
        for (auto& s : seqs)
        {
            Seq q;
            q.init = init;
            q.ops = s;
            jobs.push_back({ q, starts_threads(s) ? bound : 0, spurious });
        }
    };
    // simplest first: bound 0 on everything, then the preemption bound proper
    const std::vector<std::string> alpha = { "r3", "p", "u", "z1", "z2", "z3" };
    const std::vector<std::string> alpha_wide = { "r3", "r1", "m5", "p", "u", "z1", "z2", "z3", "z4" };
    std::string plan;
    if (!th)
    {
        add_all(2, alpha, 3, 0, 0);
        add_all(2, alpha, 2, 1, 0);
        add_all(2, { "r3", "p", "z3" }, 3, 1, 0);
        add_all(1, alpha_wide, 2, 0, 0);
        add_all(2, { "r3", "p", "u", "z3" }, 2, 1, 1);
        plan = "init 2: all sequences of length <= 3 over {r3,p,u,z1,z2,z3} at preemption bound 0, length <= 2 at bound 1, length <= 3 over "
               "{r3,p,z3} at bound 1; init 1: length <= 2 over {r3,r1,m5,p,u,z1..z4} bound 0; init 2: length <= 2 over {r3,p,u,z3} bound 1 + one spurious wake-up; "
               "state-cached";
    }
    else
    {
        add_all(2, alpha, 4, 0, 0);
        add_all(2, alpha, 3, 1, 0);
        add_all(2, alpha, 2, 2, 0);
        add_all(1, alpha_wide, 3, 0, 0);
        add_all(1, alpha_wide, 2, 1, 0);
        add_all(3, alpha_wide, 2, 1, 0);
        add_all(2, { "r3", "p", "u", "z3" }, 3, 1, 1);
        plan = "init 2: all sequences of length <= 4 over {r3,p,u,z1,z2,z3} at bound 0, length <= 3 at bound 1, length <= 2 at bound 2; "
               "init 1: length <= 3 over {r3,r1,m5,p,u,z1..z4} bound 0, length <= 2 bound 1; init 3: length <= 2 bound 1; init 2: "
               "length <= 3 over {r3,p,u,z3} bound 1 + one spurious wake-up; state-cached";
    }
    rep.bounds["operation_sequences"] = plan;
    const double budget = a.deadline_s;
    long n_complete = 0, n_incomplete = 0;
    std::map<std::string, long> per_group_exec;
    for (std::size_t ji = 0; ji < jobs.size(); ++ji)
    {
        const auto& j = jobs[ji];
        double el = std::chrono::duration<double>(std::chrono::steady_clock::now() - t0).count();
        if (el > budget)
        {
            rep.deadline_hit = true;
            n_incomplete += static_cast<long>(jobs.size() - ji);
            break;
        }
        mc::ExploreConfig cfg;
        cfg.bound = j.bound;
        cfg.cache = true;
        cfg.jobs = starts_threads(j.sq.ops) ? a.jobs : 1;
        cfg.spurious = j.spurious;
        cfg.deadline_s = std::max(5.0, budget - el);
        mc::ExploreStats st = mc::explore([&]() { run_seq(j.sq); }, cfg, mcsig::signatures);
        if (st.complete)
            ++n_complete;
        else
        {
            ++n_incomplete;
            rep.deadline_hit = true;
            rep.bounds["INCOMPLETE " + j.sq.str() + " bound=" + std::to_string(j.bound)] = st.incomplete_reason;
        }
        rep.worlds += st.states.size();
        rep.evaluations += static_cast<u64>(st.executions);
        rep.ops += static_cast<u64>(st.steps);
        rep.nontrivial += static_cast<u64>(st.with_preemption);
        per_group_exec["len" + std::to_string(j.sq.ops.size()) + "/bound" + std::to_string(j.bound) + (j.spurious ? "/spurious" : "")]
            += st.executions;
        for (auto h : st.outcomes)
            rep.digest(h ^ (0x9e3779b97f4a7c15ull * (ji + 1)));
        for (auto& kv : st.verdicts)
            rep.hit("verdict/" + kv.first, static_cast<u64>(kv.second));
        rep.hit("sequences");
        for (auto& kv : st.bad)
        {
            std::string world = "seq=" + j.sq.str() + ";bound=" + std::to_string(j.bound) + ";spurious=" + std::to_string(j.spurious)
                                + ";sched=" + sched_str(kv.second.schedule);
            rep.viol_counts["C11/" + kv.first] += static_cast<u64>(kv.second.count) - 1;
            rep.violation("C11/" + kv.first, static_cast<u64>(ji * 100000 + kv.second.schedule.size()), world,
                          kv.second.verdict + ": " + kv.second.detail + (kv.second.races.empty() ? "" : " | race " + kv.second.races.front()));
        }
        if (ji % 97 == 0)
            for (auto& s : st.sample_schedules)
            {
                rep.sample("seq=" + j.sq.str() + ";sched=" + sched_str(s));
                break;
            }
    }
    rep.bounds["sequences_complete"] = std::to_string(n_complete);
    rep.bounds["sequences_incomplete"] = std::to_string(n_incomplete);
    for (auto& kv : per_group_exec)
        rep.bounds["executions " + kv.first] = std::to_string(kv.second);
    rep.compact();
    double wall = std::chrono::duration<double>(std::chrono::steady_clock::now() - t0).count();
    std::string js = rep.to_json(a, wall);
    if (a.out.empty())
        std::fputs(js.c_str(), stdout);
    else
    {
        std::ofstream f(a.out);
        f << js;
    }
    return 0;
}
