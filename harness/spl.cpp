// SSE harness for the stream-power eroder: C12 (sign / lake / no reversal / validation)
// and C13 (the returned erosion solves the backward-Euler equation).
#include "flow_oracles.hpp"
#include "fastscapelib/eroders/spl.hpp"

using namespace sse;

namespace
{
    GridSpec raster_spec(int rc, int nr, int nc, const char* borders, double sr, double sc, bool cache)
    {
        GridSpec g;
        g.kind = RASTER;
        g.rc = rc;
        g.nr = nr;
        g.nc = nc;
        g.sr = sr;
        g.sc = sc;
        g.cache = cache;
        for (int i = 0; i < 4; ++i)
            g.b[i] = status_from_char(borders[i]);
        return g;
    }
    GridSpec profile_spec(int n, const char* borders, double sp, bool cache)
    {
        GridSpec g;
        g.kind = PROFILE;
        g.nr = 1;
        g.nc = n;
        g.sc = sp;
        g.cache = cache;
        g.b[0] = status_from_char(borders[0]);
        g.b[1] = status_from_char(borders[1]);
        return g;
    }
    GridSpec mesh_spec(const char* cells, int jitter, int vorder, int smode)
    {
        GridSpec g;
        g.kind = TRIMESH;
        for (int i = 0; i < 4; ++i)
            g.cells[i] = cells[i] - '0';
        g.jitter = jitter;
        g.vorder = vorder;
        g.smode = smode;
        g.cache = false;
        return g;
    }

    struct Params
    {
        double k = 1.0;
        bool k_array = false;  // two-valued array: k on even nodes, 4k on odd nodes
        double m = 0.5, n = 1.0, dt = 1.0, tol = 1e-3;
        int area_mode = 0;     // 0 accumulate(1), 1 all ones, 2 three-level pattern
        int elev_mode = 0;     // 0 erode the returned (resolved) elevation, 1 erode the raw input
        int via_setters = 0;   // 1: parameters reached through set_k_coef / set_area_exp / set_slope_exp
        int second_call = 0;   // 1: judged on the second erode() call of the same eroder (first call used the other mode)
    };

    struct SCase
    {
        std::vector<double> elev;
        bool has_mask = false;
        std::vector<int> mask;
        bool default_base = true;
        std::vector<std::size_t> base;
        Program prog;
        Params p;
    };

    std::string world_str(const GridSpec& g, const SCase& c)
    {
        std::ostringstream o;
        o << "g=" << g.str() << ";e=";
        for (std::size_t i = 0; i < c.elev.size(); ++i)
            o << (i ? " " : "") << hexd(c.elev[i]);
        o << ";m=";
        if (!c.has_mask)
            o << "-";
        else
            for (int b : c.mask)
                o << (b ? '1' : '0');
        o << ";b=";
        if (c.default_base)
            o << "d";
        else
            for (std::size_t i = 0; i < c.base.size(); ++i)
                o << (i ? " " : "") << c.base[i];
        o << ";prog=" << c.prog.str() << ";K=" << hexd(c.p.k) << ";Karr=" << (c.p.k_array ? 1 : 0) << ";mexp=" << hexd(c.p.m)
          << ";nexp=" << hexd(c.p.n) << ";dt=" << hexd(c.p.dt) << ";tol=" << hexd(c.p.tol) << ";area=" << c.p.area_mode
          << ";emode=" << c.p.elev_mode << ";call2=" << c.p.second_call << ";setters=" << c.p.via_setters;
        return o.str();
    }

    bool parse_world(const std::string& s, GridSpec& g, SCase& c)
    {
        auto kv = parse_kv(s);
        if (!kv.count("g"))
            return false;
        g = GridSpec::parse(kv["g"]);
        for (auto& t : split(kv["e"], ' '))
            if (!t.empty())
                c.elev.push_back(unhexd(t));
        std::string m = kv["m"];
        c.has_mask = m != "-";
        if (c.has_mask)
            for (char ch : m)
                c.mask.push_back(ch == '1');
        std::string b = kv["b"];
        c.default_base = b == "d";
        if (!c.default_base)
            for (auto& t : split(b, ' '))
                if (!t.empty())
                    c.base.push_back(static_cast<std::size_t>(std::atol(t.c_str())));
        c.prog = Program::parse(kv["prog"]);
        c.p.k = unhexd(kv["K"]);
        c.p.k_array = kv["Karr"] == "1";
        c.p.m = unhexd(kv["mexp"]);
        c.p.n = unhexd(kv["nexp"]);
        c.p.dt = unhexd(kv["dt"]);
        c.p.tol = unhexd(kv["tol"]);
        c.p.area_mode = std::atoi(kv["area"].c_str());
        c.p.elev_mode = std::atoi(kv["emode"].c_str());
        c.p.second_call = kv.count("call2") ? std::atoi(kv["call2"].c_str()) : 0;
        c.p.via_setters = kv.count("setters") ? std::atoi(kv["setters"].c_str()) : 0;
        return true;
    }

    std::string n_class(double n)
    {
        return n == 1.0 ? "n=1" : (n < 1.0 ? "n<1" : "n>1");
    }

    template <class G>
    struct Runner
    {
        Ctx& ctx;
        G& grid;
        const GridSpec& gs;
        const RefGeom& geo;
        const std::string& prop;
        using FG = fs::flow_graph<G>;

        // graph construction is shared by all parameter points of one (field, program)
        void run(const SCase& c0, const std::vector<Params>& params)
        {
            std::size_t n = static_cast<std::size_t>(geo.n);
            Built<G> b = build_graph(grid, c0.prog);
            auto& fg = *b.fg;
            if (!c0.default_base)
                fg.set_base_levels(c0.base);
            if (c0.has_mask)
                fg.set_mask(make_mask(grid, c0.mask));
            std::vector<char> masked(n, 0), base(n, 0);
            if (c0.has_mask)
                for (std::size_t i = 0; i < n; ++i)
                    masked[i] = c0.mask[i] ? 1 : 0;
            bool any = false;
            for (auto bi : fg.base_levels())
                if (bi < n)
                {
                    base[bi] = 1;
                    if (!masked[bi])
                        any = true;
                }
            if (!any)
            {
                ++ctx.rep.skipped;
                return;
            }
            auto field = make_field(grid, c0.elev);
            const auto& out = fg.update_routes(field);
            ++ctx.rep.ops;
            GState s = extract_state(fg.impl(), out);
            Findings tf;
            if (!tables_ok(s, tf))
                return;
            for (std::size_t i = 0; i < n; ++i)
                for (std::size_t k = 0; k < s.rcount[i]; ++k)
                    if (!std::isfinite(s.w(i, k)))
                    {
                        ++ctx.rep.skipped;  // C05's business
                        return;
                    }
            auto acc1 = fg.accumulate(1.0);
            bool multi = !fg.single_flow();
            std::size_t pidx = 0;
            for (const auto& p : params)
            {
                // every other parameter point reaches its parameters through the setters of an
                // eroder that was constructed with different ones
                const bool via_setters = (pidx++ % 2) == 1;
                SCase c = c0;
                c.p = p;
                c.p.via_setters = (via_setters || c0.p.via_setters) ? 1 : 0;
                ++ctx.rep.evaluations;
                auto V = [&](const std::string& sig, const std::string& det)
                { ctx.rep.violation(prop + "/" + sig, ctx.order(), world_str(gs, c), det); };
                // validation: n != 1 on a multiple-direction graph must be rejected
                using arr_t = typename FG::data_array_type;
                std::unique_ptr<fs::spl_eroder<FG>> er;
                bool threw = false;
                try
                {
                    arr_t karr = make_field(grid, std::vector<double>(n, p.k));
                    for (std::size_t i = 1; i < n; i += 2)
                        karr.flat(i) = 4 * p.k;
                    if (via_setters || c0.p.via_setters)
                    {
                        // decoy construction (other K kind and value, other exponents), one
                        // erosion step with it, then the setters
                        // decoy slope exponent: non-linear where the graph allows it
                        const double n_decoy = multi ? 1.0 : (p.n == 2.0 ? 0.5 : 2.0);
                        if (p.k_array)
                            er = std::make_unique<fs::spl_eroder<FG>>(fg, 2 * p.k + 0.5, p.m + 0.25, n_decoy, p.tol);
                        else
                            er = std::make_unique<fs::spl_eroder<FG>>(fg, karr, p.m + 0.25, n_decoy, p.tol);
                        {
                            arr_t h0 = make_field(grid, s.out), a0 = make_field(grid, std::vector<double>(n, 1.0));
                            (void) er->erode(h0, a0, 0.5);
                        }
                        if (p.k_array)
                            er->set_k_coef(karr);
                        else
                            er->set_k_coef(p.k);
                        er->set_area_exp(p.m);
                        er->set_slope_exp(p.n);
                    }
                    else if (p.k_array)
                        er = std::make_unique<fs::spl_eroder<FG>>(fg, karr, p.m, p.n, p.tol);
                    else
                        er = std::make_unique<fs::spl_eroder<FG>>(fg, p.k, p.m, p.n, p.tol);
                }
                catch (const std::invalid_argument&)
                {
                    threw = true;
                }
                ++ctx.rep.ops;
                bool must_throw = multi && p.n != 1.0;
                if (prop == "C12" && threw != must_throw)
                {
                    V(must_throw ? "nonlinear-exponent-accepted-on-multiple-direction-graph/" + n_class(p.n)
                                 : "valid-exponent-rejected",
                      "slope exponent " + hexd(p.n));
                }
                if (threw || must_throw)
                {
                    ctx.rep.hit("constructions-that-must-throw");
                    continue;
                }
                // two calls on the same eroder object: the elevation mode in force, then the
                // other one (lakes appear / disappear between the calls)
                for (int call = 0; call < 2; ++call)
                {
                const int emode = call == 0 ? p.elev_mode : 1 - p.elev_mode;
                c.p.elev_mode = emode;
                c.p.second_call = call;
                std::vector<double> h(n), area(n);
                for (std::size_t i = 0; i < n; ++i)
                {
                    h[i] = emode == 0 ? s.out[i] : c0.elev[i];
                    area[i] = p.area_mode == 0 ? acc1.flat(i) : (p.area_mode == 1 ? 1.0 : 1.0 + static_cast<double>((i * 3) % 3));
                }
                arr_t harr = make_field(grid, h), aarr = make_field(grid, area);
                const auto& ero_arr = er->erode(harr, aarr, p.dt);
                ++ctx.rep.ops;
                std::vector<double> ero(n), hn(n), kv(n);
                bool finite = true;
                for (std::size_t i = 0; i < n; ++i)
                {
                    ero[i] = ero_arr.flat(i);
                    hn[i] = h[i] - ero[i];
                    kv[i] = p.k_array ? ((i % 2) ? 4 * p.k : p.k) : p.k;
                    if (!std::isfinite(ero[i]))
                        finite = false;
                }
                const double eps = std::numeric_limits<double>::epsilon();
                bool eroded_somewhere = false;
                std::size_t judged = 0;
                for (std::size_t i = 0; i < n; ++i)
                {
                    if (!finite)
                    {
                        V("non-finite-erosion/" + n_class(p.n), "node " + node_s(i));
                        break;
                    }
                    bool terminal = s.rcount[i] == 1 && s.r(i, 0) == i;
                    double flooded = std::numeric_limits<double>::max();
                    for (std::size_t k = 0; k < s.rcount[i]; ++k)
                        flooded = std::min(flooded, hn[s.r(i, k)]);
                    if (ero[i] != 0)
                        eroded_somewhere = true;
                    if (prop == "C12")
                    {
                        if (terminal || masked[i] || base[i])
                        {
                            if (ero[i] != 0)
                                V("erosion-at-terminal-node", "node " + node_s(i) + " erosion " + hexd(ero[i]));
                            continue;
                        }
                        if (h[i] <= flooded && ero[i] != 0)
                            V("erosion-inside-lake", "node " + node_s(i) + " elevation " + hexd(h[i])
                                                         + " lowest receiver after erosion " + hexd(flooded) + " erosion "
                                                         + hexd(ero[i]));
                        if (ero[i] < -8 * eps * (std::fabs(h[i]) + 1e-300))
                            V("negative-erosion/" + n_class(p.n), "node " + node_s(i) + " erosion " + hexd(ero[i]));
                        // only a node that was actually lowered can have been lowered too far
                        if (ero[i] > 0 && hn[i] < flooded - 4 * eps * (std::fabs(h[i]) + std::fabs(flooded)))
                            V("slope-reversed/" + n_class(p.n), "node " + node_s(i) + " new elevation " + hexd(hn[i])
                                                                    + " lowest receiver after erosion " + hexd(flooded));
                    }
                    else
                    {
                        if (terminal || masked[i] || base[i] || h[i] <= flooded)
                            continue;
                        // limited nodes (clamped to the floor) are outside C13
                        double slack = 8 * eps * (std::fabs(h[i]) + std::fabs(flooded)) + 4 * std::numeric_limits<double>::min();
                        if (hn[i] <= flooded + slack)
                        {
                            ctx.rep.hit("limited-nodes");
                            continue;
                        }
                        // residual of the backward-Euler equation in long double
                        long double R = static_cast<long double>(hn[i]) - h[i];
                        long double scale = std::fabs(static_cast<long double>(hn[i])) + std::fabs(static_cast<long double>(h[i]));
                        for (std::size_t k = 0; k < s.rcount[i]; ++k)
                        {
                            std::size_t r = s.r(i, k);
                            if (h[r] > h[i])
                                continue;  // not a lower receiver
                            long double f = static_cast<long double>(kv[i]) * p.dt
                                            * std::pow(static_cast<long double>(area[i]) * s.w(i, k), static_cast<long double>(p.m));
                            long double drop = static_cast<long double>(hn[i]) - hn[r];
                            long double dist = s.d(i, k);
                            long double term;
                            if (p.n == 1.0)
                                term = f * drop / dist;
                            else
                                term = drop > 0 ? f * std::pow(drop / dist, static_cast<long double>(p.n)) : 0.0L;
                            R += term;
                            // rounding allowance: every quantity entering the term carries
                            // a relative error of a few ulp, amplified by the term's slope
                            long double sens = p.n == 1.0 ? f / dist
                                                          : (drop > 0 ? f * p.n * std::pow(drop / dist, static_cast<long double>(p.n) - 1) / dist : 0.0L);
                            scale += std::fabs(term) + sens * (std::fabs(static_cast<long double>(hn[i])) + std::fabs(static_cast<long double>(hn[r])) + std::fabs(static_cast<long double>(h[i])));
                        }
                        ++judged;
                        long double allowed = 1e-10L * scale + (p.n == 1.0 ? 0.0L : static_cast<long double>(p.tol) * (1 + 1e-9L));
                        if (!(std::fabs(R) <= allowed))
                        {
                            V("residual-too-large/" + n_class(p.n) + (multi ? "/multiple-direction" : "/single-direction"),
                              "node " + node_s(i) + " residual " + hexd(static_cast<double>(R)) + " allowed "
                                  + hexd(static_cast<double>(allowed)) + " old " + hexd(h[i]) + " new " + hexd(hn[i]));
                            break;
                        }
                    }
                }
                if (prop == "C13")
                    ctx.rep.hit("judged-nodes/" + n_class(p.n), judged);
                if (eroded_somewhere && (prop == "C12" || judged > 0))
                {
                    ++ctx.rep.nontrivial;
                    Hasher hh;
                    hh.seq(ero);
                    ctx.rep.digest(hh.h);
                    ctx.rep.hit("n_corr>0", er->n_corr() > 0 ? 1 : 0);
                }
                }  // calls on the same eroder
            }
        }
    };

    std::vector<Params> make_params(bool th)
    {
        std::vector<Params> ps;
        int idx = 0;
        // n = 4 with the largest time step needs more than 20 Newton iterations from the
        // initial drop (each step only shrinks it by (n - 1) / n while the power term dominates)
        std::vector<double> ns = { 1.0, 2.0, 0.5, 4.0 };
        if (th)
        {
            ns.push_back(1.5);
            ns.push_back(0.8);
            ns.push_back(6.0);
        }
        std::vector<double> dts = { 0.0, 1.0, 1e6, 1e12 };
        std::vector<double> ks = { 1e-3, 1.0 };
        std::vector<double> ms = { 0.5, 1.0 };
        if (th)
            ms.push_back(0.0);
        for (double n : ns)
            for (double m : ms)
                for (double k : ks)
                    for (double dt : dts)
                    {
                        Params p;
                        p.n = n;
                        p.m = m;
                        p.k = k;
                        p.dt = dt;
                        p.tol = (idx % 2) ? 1e-9 : 1e-3;
                        p.area_mode = idx % 3;
                        p.elev_mode = (idx / 3) % 2;
                        p.k_array = (idx % 5) == 4;
                        ps.push_back(p);
                        ++idx;
                    }
        {
            Params p;  // zero erodibility
            p.k = 0.0;
            ps.push_back(p);
            p.n = 2.0;
            p.elev_mode = 1;
            ps.push_back(p);
        }
        return ps;
    }

    struct PlanEntry
    {
        GridSpec g;
        int k;
        u64 stride;
        int dev;
        std::vector<int> vmaps;
    };

    std::vector<PlanEntry> make_plan(const Args& a)
    {
        const bool th = a.thorough();
        std::vector<PlanEntry> plan;
        auto add = [&](const GridSpec& g, int k, u64 stride, int dev, std::vector<int> vm)
        {
            if (!family_compiled(g.family()) || (!a.family.empty() && a.family != g.family()))
                return;
            plan.push_back({ g, k, stride, dev, vm });
        };
        add(profile_spec(6, "VV", 1.0, true), 3, 1, 1, { 0, 5, 1 });
        add(profile_spec(6, "VC", 2.5, false), 3, 1, 0, { 5 });
        add(profile_spec(5, "LL", 1.0, true), 3, 1, 1, { 0 });
        for (int rc : { ROOK, QUEEN, BISHOP })
        {
            add(raster_spec(rc, 3, 3, "VVVV", 1, 1, true), 3, th ? 1 : 7, th ? 1 : 0, { 0, 5 });
            add(raster_spec(rc, 3, 3, "LLVC", 1, 2, rc != QUEEN), 3, th ? 3 : 23, 0, { 5 });
            add(raster_spec(rc, 2, 3, "VVVV", 0.5, 3, true), 3, 1, 1, { 0, 1 });
            if (th)
                add(raster_spec(rc, 4, 4, "VVVV", 1, 1, true), 2, 7, 0, { 0 });
        }
        add(mesh_spec("1111", 1, 0, 0), 3, th ? 1 : 7, 0, { 0, 5 });
        add(mesh_spec("2121", 2, 3, 2), 3, th ? 3 : 23, 0, { 5 });
        return plan;
    }

    template <class G>
    void run_entry(Ctx& ctx, G& grid, const PlanEntry& e, const RefGeom& geo, const std::vector<Params>& params)
    {
        Runner<G> runner{ ctx, grid, e.g, geo, ctx.args.property };
        std::size_t n = static_cast<std::size_t>(geo.n);
        bool has_default = false;
        for (int s : geo.status)
            if (s == FIXED_VALUE)
                has_default = true;
        std::vector<Program> progs = { Program::parse("single"), Program::parse("multi"), Program::parse("pflood+single"),
                                       Program::parse("single+mst:k:c"), Program::parse("single+mst:b:b+multi") };
        struct Dev
        {
            int mask_node = -1;
            bool default_base = true;
            std::vector<std::size_t> base;
        };
        std::vector<Dev> devs;
        if (has_default)
            devs.push_back({});
        else
            devs.push_back({ -1, false, { 0 } });
        if (e.dev >= 1)
        {
            devs.push_back({ static_cast<int>(n / 2), has_default, has_default ? std::vector<std::size_t>{} : std::vector<std::size_t>{ 0 } });
            devs.push_back({ -1, false, { n / 2 } });
        }
        const auto& vms = value_maps();
        std::vector<int> pat(n, 0);
        u64 pidx = 0;
        bool sampled = false;
        do
        {
            if ((pidx++ % e.stride) != 0)
                continue;
            for (auto& d : devs)
            {
                if (!ctx.mine())
                    continue;
                if ((ctx.rep.worlds & 0x3f) == 0 && ctx.out_of_time())
                    return;
                ++ctx.rep.worlds;
                for (int vm : e.vmaps)
                    for (auto& prog : progs)
                    {
                        SCase c;
                        c.elev.resize(n);
                        for (std::size_t i = 0; i < n; ++i)
                            c.elev[i] = vms[static_cast<std::size_t>(vm)][static_cast<std::size_t>(pat[i])];
                        if (d.mask_node >= 0)
                        {
                            c.has_mask = true;
                            c.mask.assign(n, 0);
                            c.mask[static_cast<std::size_t>(d.mask_node)] = 1;
                        }
                        c.default_base = d.default_base;
                        c.base = d.base;
                        c.prog = prog;
                        alarm(30);
                        ctx.world_fn = [&]() { return world_str(e.g, c); };
                        runner.run(c, params);
                        alarm(0);
                        if (!sampled && ctx.shard == 0 && pidx > 50)
                        {
                            c.p = params[3];
                            ctx.rep.sample(world_str(e.g, c));
                            sampled = true;
                        }
                    }
            }
        } while (next_pattern(pat, e.k));
    }
}

int main(int argc, char** argv)
{
    return sse_main(argc, argv, { "C12", "C13" },
                       [&](Ctx& ctx)
                       {
                           const Args& a = ctx.args;
                           if (ctx.replay_mode)
                           {
                               GridSpec g;
                               SCase c;
                               if (!parse_world(a.replay, g, c))
                                   std::_Exit(2);
                               RefGeom geo = ref_geometry(g);
                               bool ok = with_grid(g,
                                                   [&](auto& grid)
                                                   {
                                                       using G = std::decay_t<decltype(grid)>;
                                                       Runner<G> r{ ctx, grid, g, geo, a.property };
                                                       ++ctx.rep.worlds;
                                                       if (c.p.second_call)
                                                           c.p.elev_mode = 1 - c.p.elev_mode;  // first call uses the other mode
                                                       r.run(c, { c.p });
                                                   });
                               if (!ok)
                                   ctx.rep.bounds["replay"] = "family-not-in-this-binary";
                               return;
                           }
                           auto params = make_params(a.thorough());
                           ctx.rep.bounds["parameter_points"] = std::to_string(params.size());
                           auto plan = make_plan(a);
                           for (auto& e : plan)
                           {
                               RefGeom geo = ref_geometry(e.g);
                               with_grid(e.g,
                                         [&](auto& grid)
                                         {
                                             using G = std::decay_t<decltype(grid)>;
                                             run_entry<G>(ctx, grid, e, geo, params);
                                         });
                               if (ctx.rep.deadline_hit)
                                   break;
                           }
                       });
}
