// SSE harness for the grid properties:
//   C07  neighbourhoods vs reference geometry on every accessor, over query histories
//        (breadth-first search over the cache states reached by accessor calls)
//   C17  node status composition, admissibility, status-filtered iteration, default base levels
//   C18  triangular mesh connectivity / boundary / areas
#include "flowlib.hpp"

using namespace sse;

namespace
{
    // ------------------------------------------------------------------ configurations
    GridSpec raster_spec(int rc, int nr, int nc, const int b[4], double sr, double sc, bool cache)
    {
        GridSpec g;
        g.kind = RASTER;
        g.rc = rc;
        g.nr = nr;
        g.nc = nc;
        g.sr = sr;
        g.sc = sc;
        g.cache = cache;
        for (int i = 0; i < 4; ++i)
            g.b[i] = b[i];
        return g;
    }
    GridSpec profile_spec(int n, int bl, int br, double sp, bool cache)
    {
        GridSpec g;
        g.kind = PROFILE;
        g.nr = 1;
        g.nc = n;
        g.sc = sp;
        g.cache = cache;
        g.b[0] = bl;
        g.b[1] = br;
        return g;
    }

    // ------------------------------------------------------------------ C07
    struct Triple
    {
        std::size_t idx;
        double dist;
        int status;
        bool operator<(const Triple& o) const
        {
            return std::tie(idx, dist, status) < std::tie(o.idx, o.dist, o.status);
        }
        bool operator==(const Triple& o) const
        {
            return idx == o.idx && dist == o.dist && status == o.status;
        }
    };

    template <class G>
    u64 cache_digest(G& grid)
    {
        Hasher h;
        auto& c = grid.m_neighbors_indices_cache;
        using cache_t = std::decay_t<decltype(c)>;
        if constexpr (!std::is_same_v<cache_t, fs::neighbors_cache<cache_t::cache_width == 0 ? 1 : cache_t::cache_width>>)
        {
            // pass-through storage (cache-less grids, meshes): scratch content left over
            // from the last query is not observable through the API, so all states are
            // equivalent
            h.pod(0);
        }
        else
        {
            for (std::size_t i = 0; i < c.m_cache.size(); ++i)
                h.seq(c.m_cache[i]);
        }
        return h.h;
    }

    enum Accessor
    {
        A_COUNT,
        A_INDICES,
        A_INDICES_INTO,
        A_DISTANCES,
        A_NEIGHBORS,
        A_NEIGHBORS_INTO,
        A_RC_INDICES,
        A_RC_INDICES_INTO,
        A_RC_NEIGHBORS,
        A_RC_NEIGHBORS_INTO,
        A_END
    };
    const char* acc_name[] = { "count",          "indices",          "indices-into",  "distances",
                               "neighbors",      "neighbors-into",   "rc-indices",    "rc-indices-into",
                               "rc-neighbors",   "rc-neighbors-into" };

    template <class G>
    constexpr bool is_raster_v = G::is_structured() && G::container_ndims() == 2;

    // apply one accessor to one node and compare the answer with the reference
    template <class G>
    void apply_accessor(G& grid, const GridSpec& gs, const RefGeom& geo, int acc, std::size_t node, Findings& f)
    {
        std::vector<Triple> want;
        for (auto& nb : geo.nb[node])
            want.push_back({ static_cast<std::size_t>(nb.idx), nb.dist, geo.status[static_cast<std::size_t>(nb.idx)] });
        std::sort(want.begin(), want.end());
        auto fail = [&](const std::string& what, const std::string& det)
        { f.push_back({ std::string(acc_name[acc]) + "/" + what, "node " + std::to_string(node) + ": " + det }); };
        std::size_t nc = static_cast<std::size_t>(gs.nc);
        auto cmp_idx = [&](std::vector<std::size_t> got)
        {
            std::vector<std::size_t> w;
            for (auto& t : want)
                w.push_back(t.idx);
            std::sort(got.begin(), got.end());
            std::sort(w.begin(), w.end());
            if (got != w)
                fail("indices-differ", "expected " + std::to_string(w.size()) + " got " + std::to_string(got.size()));
        };
        switch (acc)
        {
            case A_COUNT:
                if (grid.neighbors_count(node) != want.size())
                    fail("count-differs", "expected " + std::to_string(want.size()) + " got "
                                              + std::to_string(grid.neighbors_count(node)));
                break;
            case A_INDICES:
            {
                auto r = grid.neighbors_indices(node);
                cmp_idx(std::vector<std::size_t>(r.begin(), r.end()));
                break;
            }
            case A_INDICES_INTO:
            {
                typename G::neighbors_indices_type buf = xt::ones<std::size_t>({ std::size_t(11) }) * 77;
                auto& r = grid.neighbors_indices(node, buf);
                if (&r != &buf)
                    fail("not-same-buffer", "");
                cmp_idx(std::vector<std::size_t>(buf.begin(), buf.end()));
                break;
            }
            case A_DISTANCES:
            {
                auto r = grid.neighbors_distances(node);
                std::vector<double> got(r.begin(), r.end()), w;
                for (auto& t : want)
                    w.push_back(t.dist);
                std::sort(got.begin(), got.end());
                std::sort(w.begin(), w.end());
                if (got != w)
                    fail("distances-differ", "expected " + std::to_string(w.size()) + " got "
                                                 + std::to_string(got.size()) + (got.size() ? " first " + hexd(got[0]) : ""));
                break;
            }
            case A_NEIGHBORS:
            case A_NEIGHBORS_INTO:
            {
                typename G::neighbors_type buf(acc == A_NEIGHBORS_INTO ? 13 : 0);
                if (acc == A_NEIGHBORS)
                    buf = grid.neighbors(node);
                else
                    grid.neighbors(node, buf);
                std::vector<Triple> got;
                for (auto& nb : buf)
                    got.push_back({ nb.idx, nb.distance, static_cast<int>(nb.status) });
                // position-wise agreement with the other accessors
                auto ind = grid.neighbors_indices(node);
                auto dis = grid.neighbors_distances(node);
                if (ind.size() != got.size() || dis.size() != got.size())
                    fail("accessors-disagree-on-size", "");
                else
                    for (std::size_t k = 0; k < got.size(); ++k)
                        if (ind[k] != got[k].idx || dis[k] != got[k].dist)
                        {
                            fail("accessors-disagree", "position " + std::to_string(k));
                            break;
                        }
                std::sort(got.begin(), got.end());
                if (!(got == want))
                    fail("neighbors-differ", "expected " + std::to_string(want.size()) + " got " + std::to_string(got.size()));
                break;
            }
            default:
                if constexpr (is_raster_v<G>)
                {
                    std::size_t row = node / nc, col = node % nc;
                    if (acc == A_RC_INDICES || acc == A_RC_INDICES_INTO)
                    {
                        typename G::neighbors_indices_raster_type buf(acc == A_RC_INDICES_INTO ? 5 : 0);
                        if (acc == A_RC_INDICES)
                            buf = grid.neighbors_indices(row, col);
                        else
                            grid.neighbors_indices(row, col, buf);
                        std::vector<std::size_t> got;
                        for (auto& p : buf)
                        {
                            if (p.first >= static_cast<std::size_t>(gs.nr) || p.second >= nc)
                                fail("row-col-out-of-range", "");
                            got.push_back(p.first * nc + p.second);
                        }
                        auto ind = grid.neighbors_indices(node);
                        if (ind.size() != got.size())
                            fail("accessors-disagree-on-size", "");
                        else
                            for (std::size_t k = 0; k < got.size(); ++k)
                                if (ind[k] != got[k])
                                {
                                    fail("accessors-disagree", "position " + std::to_string(k));
                                    break;
                                }
                        cmp_idx(got);
                    }
                    else
                    {
                        typename G::neighbors_raster_type buf(acc == A_RC_NEIGHBORS_INTO ? 11 : 0);
                        if (acc == A_RC_NEIGHBORS)
                            buf = grid.neighbors(row, col);
                        else
                            grid.neighbors(row, col, buf);
                        std::vector<Triple> got;
                        for (auto& nb : buf)
                        {
                            if (nb.row * nc + nb.col != nb.flatten_idx)
                                fail("row-col-inconsistent-with-flat-index", "");
                            got.push_back({ nb.flatten_idx, nb.distance, static_cast<int>(nb.status) });
                        }
                        auto ref = grid.neighbors(node);
                        if (ref.size() != got.size())
                            fail("accessors-disagree-on-size", "");
                        else
                            for (std::size_t k = 0; k < got.size(); ++k)
                                if (ref[k].idx != got[k].idx || ref[k].distance != got[k].dist)
                                {
                                    fail("accessors-disagree", "position " + std::to_string(k));
                                    break;
                                }
                        std::sort(got.begin(), got.end());
                        if (!(got == want))
                            fail("neighbors-differ", "expected " + std::to_string(want.size()) + " got "
                                                         + std::to_string(got.size()));
                    }
                }
                break;
        }
    }

    std::string c07_world(const GridSpec& g, const std::vector<std::pair<int, std::size_t>>& hist)
    {
        std::ostringstream o;
        o << "g=" << g.str() << ";h=";
        for (std::size_t i = 0; i < hist.size(); ++i)
            o << (i ? " " : "") << hist[i].first << ":" << hist[i].second;
        return o.str();
    }

    // BFS over query histories for one configuration
    template <class G>
    void c07_config(Ctx& ctx, const GridSpec& gs, int max_depth)
    {
        RefGeom geo = ref_geometry(gs);
        std::size_t n = static_cast<std::size_t>(geo.n);
        int nacc = is_raster_v<G> ? A_END : A_RC_INDICES;
        // symmetry of the reference relation itself (sanity of the model)
        for (std::size_t i = 0; i < n; ++i)
            for (auto& nb : geo.nb[i])
            {
                std::size_t j = static_cast<std::size_t>(nb.idx);
                auto cnt = [&](std::size_t a, std::size_t b)
                {
                    std::size_t c = 0;
                    for (auto& x : geo.nb[a])
                        if (static_cast<std::size_t>(x.idx) == b)
                            ++c;
                    return c;
                };
                if (cnt(i, j) != cnt(j, i))
                    ctx.rep.violation("C07/model/reference-not-symmetric", ctx.order(), c07_world(gs, {}), "");
            }
        struct State
        {
            std::vector<std::pair<int, std::size_t>> hist;
            int depth;
        };
        std::set<u64> seen;
        std::vector<State> frontier;
        auto build = [&](const std::vector<std::pair<int, std::size_t>>& hist, Findings* f)
        {
            // state = event history replayed on a fresh grid (grids own references to
            // themselves through iterators only; construction is cheap)
            std::unique_ptr<G> gp;
            with_grid(gs,
                      [&](auto& grid)
                      {
                          using GG = std::decay_t<decltype(grid)>;
                          if constexpr (std::is_same_v<GG, G>)
                              gp = std::make_unique<G>(grid);
                      });
            Findings dummy;
            for (auto& ev : hist)
                apply_accessor(*gp, gs, geo, ev.first, ev.second, f ? *f : dummy);
            return gp;
        };
        {
            auto g0 = build({}, nullptr);
            seen.insert(cache_digest(*g0));
            frontier.push_back({ {}, 0 });
        }
        ++ctx.rep.worlds;
        bool sampled = false;
        std::size_t head = 0;
        while (head < frontier.size())
        {
            State st = frontier[head++];
            if (st.depth >= max_depth)
                continue;
            for (int a = 0; a < nacc; ++a)
                for (std::size_t node = 0; node < n; ++node)
                {
                    auto hist = st.hist;
                    hist.push_back({ a, node });
                    // replay the prefix silently, judge only the new event
                    auto gp = build(st.hist, nullptr);
                    Findings f;
                    apply_accessor(*gp, gs, geo, a, node, f);
                    ++ctx.rep.ops;
                    ++ctx.rep.evaluations;
                    for (auto& x : f)
                        ctx.rep.violation("C07/" + x.sig, ctx.order(), c07_world(gs, hist), x.detail);
                    u64 d = cache_digest(*gp);
                    if (seen.insert(d).second)
                    {
                        frontier.push_back({ hist, st.depth + 1 });
                        ++ctx.rep.worlds;
                        ++ctx.rep.nontrivial;
                        Hasher h;
                        h.pod(d);
                        h.str(gs.str());
                        ctx.rep.digest(h.h);
                        if (!sampled && hist.size() >= 2 && ctx.shard == 0)
                        {
                            ctx.rep.sample(c07_world(gs, hist));
                            sampled = true;
                        }
                    }
                }
        }
        ctx.rep.hit("cache-states", seen.size());
    }

    // Two live grids of the same static type queried in lock-step: neither may see the
    // other's state (per-type or per-thread storage shared between grid objects).
    GridSpec companion_of(const GridSpec& gs)
    {
        GridSpec c = gs;
        bool looped = false;
        for (int i = 0; i < (gs.kind == PROFILE ? 2 : 4); ++i)
            if (gs.b[i] == LOOPED)
                looped = true;
        for (int i = 0; i < 4; ++i)
            c.b[i] = looped ? FIXED_VALUE : LOOPED;
        if (gs.kind == PROFILE)
            c.nc = gs.nc + 1;
        else if (gs.nr != gs.nc)
            std::swap(c.nr, c.nc);
        else
            c.nc = gs.nc + 1;
        c.sr = gs.sc * 1.5;
        c.sc = gs.sr * 0.5;
        return c;
    }

    std::string c07_pair_world(const GridSpec& a, const GridSpec& b, int acc, std::size_t node, int order)
    {
        std::ostringstream o;
        o << "g=" << a.str() << ";g2=" << b.str() << ";pair=" << acc << ":" << node << ":" << order;
        return o.str();
    }

    template <class G>
    void c07_pair_one(Ctx& ctx, const GridSpec& gs, const GridSpec& cs, int acc, std::size_t node, int order)
    {
        RefGeom geo = ref_geometry(gs), cgeo = ref_geometry(cs);
        std::unique_ptr<G> ga, gb;
        with_grid(gs, [&](auto& grid) { if constexpr (std::is_same_v<std::decay_t<decltype(grid)>, G>) ga = std::make_unique<G>(grid); });
        with_grid(cs, [&](auto& grid) { if constexpr (std::is_same_v<std::decay_t<decltype(grid)>, G>) gb = std::make_unique<G>(grid); });
        if (!ga || !gb)
            return;
        Findings f, dummy;
        if (order == 0)
        {
            // companion first (same flat index), then the judged query on the main grid
            if (node < static_cast<std::size_t>(cgeo.n))
                apply_accessor(*gb, cs, cgeo, A_NEIGHBORS, node, dummy);
            apply_accessor(*ga, gs, geo, acc, node, f);
        }
        else
        {
            apply_accessor(*ga, gs, geo, A_INDICES, node, dummy);
            if (node < static_cast<std::size_t>(cgeo.n))
                apply_accessor(*gb, cs, cgeo, acc, node, f);
        }
        ctx.rep.ops += 2;
        ++ctx.rep.evaluations;
        for (auto& x : f)
            ctx.rep.violation("C07/two-grids/" + x.sig, ctx.order(), c07_pair_world(gs, cs, acc, node, order), x.detail);
    }

    template <class G>
    void c07_pairs(Ctx& ctx, const GridSpec& gs)
    {
        GridSpec cs = companion_of(gs);
        if (!cs.borders_admissible())
            return;
        int nacc = is_raster_v<G> ? A_END : A_RC_INDICES;
        std::size_t n = static_cast<std::size_t>(gs.size());
        for (int order = 0; order < 2; ++order)
            for (int a = 0; a < nacc; ++a)
                for (std::size_t node = 0; node < n; ++node)
                    c07_pair_one<G>(ctx, gs, cs, a, node, order);
        ctx.rep.hit("two-grid-lock-step-configurations");
    }

    void c07_replay(Ctx& ctx, const std::string& world)
    {
        {
            auto kv0 = parse_kv(world);
            if (kv0.count("pair"))
            {
                GridSpec gs = GridSpec::parse(kv0["g"]), cs = GridSpec::parse(kv0["g2"]);
                auto p = split(kv0["pair"], ':');
                with_grid(gs,
                          [&](auto& grid)
                          {
                              using G = std::decay_t<decltype(grid)>;
                              ++ctx.rep.worlds;
                              c07_pair_one<G>(ctx, gs, cs, std::atoi(p[0].c_str()), static_cast<std::size_t>(std::atol(p[1].c_str())),
                                              std::atoi(p[2].c_str()));
                          });
                return;
            }
        }
        auto kv = parse_kv(world);
        GridSpec gs = GridSpec::parse(kv["g"]);
        RefGeom geo = ref_geometry(gs);
        std::vector<std::pair<int, std::size_t>> hist;
        for (auto& t : split(kv["h"], ' '))
            if (!t.empty())
            {
                auto p = split(t, ':');
                hist.push_back({ std::atoi(p[0].c_str()), static_cast<std::size_t>(std::atol(p[1].c_str())) });
            }
        with_grid(gs,
                  [&](auto& grid)
                  {
                      Findings f;
                      for (std::size_t k = 0; k < hist.size(); ++k)
                      {
                          Findings tmp;
                          apply_accessor(grid, gs, geo, hist[k].first, hist[k].second, k + 1 == hist.size() ? f : tmp);
                      }
                      ++ctx.rep.worlds;
                      for (auto& x : f)
                          ctx.rep.violation("C07/" + x.sig, 0, world, x.detail);
                  });
    }

    void run_c07(Ctx& ctx)
    {
        const bool th = ctx.thorough();
        std::vector<std::pair<GridSpec, int>> configs;  // (spec, BFS depth)
        // profile: all 16 border pairs (inadmissible ones are C17's business)
        for (int n : th ? std::vector<int>{ 2, 3, 4, 5, 6, 8 } : std::vector<int>{ 2, 3, 4, 5 })
            for (int bl = 0; bl < 4; ++bl)
                for (int br = 0; br < 4; ++br)
                    for (double sp : { 1.0, 2.5 })
                        for (bool cache : { true, false })
                        {
                            GridSpec g = profile_spec(n, bl, br, sp, cache);
                            if (g.borders_admissible())
                                configs.push_back({ g, n <= 6 ? n : 3 });
                        }
        std::vector<std::array<int, 2>> shapes = { { 2, 2 }, { 2, 3 }, { 3, 2 }, { 3, 3 } };
        if (th)
        {
            shapes.push_back({ 2, 4 });
            shapes.push_back({ 4, 2 });
            shapes.push_back({ 3, 4 });
            shapes.push_back({ 4, 4 });
            shapes.push_back({ 2, 5 });
            shapes.push_back({ 5, 3 });
        }
        std::vector<std::array<double, 2>> spacings = { { 1, 1 }, { 1, 2 } };
        if (th)
            spacings.push_back({ 0.5, 3 });
        for (int rc : { ROOK, QUEEN, BISHOP })
            for (auto& sh : shapes)
                for (auto& sp : spacings)
                    for (int code = 0; code < 256; ++code)
                    {
                        int b[4] = { code & 3, (code >> 2) & 3, (code >> 4) & 3, (code >> 6) & 3 };
                        for (bool cache : { true, false })
                        {
                            GridSpec g = raster_spec(rc, sh[0], sh[1], b, sp[0], sp[1], cache);
                            if (!g.borders_admissible())
                                continue;
                            int nn = sh[0] * sh[1];
                            // the cache is the only mutable state: full BFS on small grids,
                            // depth-bounded on larger ones; for cache-less grids depth 2 suffices
                            int depth = !cache ? 2 : (nn <= 6 ? nn : (nn <= 9 ? (th ? 5 : 3) : (th ? 3 : 2)));
                            // only looped/non-looped matters for geometry; visiting all 100
                            // admissible mixes also binds the status field of neighbours
                            configs.push_back({ g, depth });
                        }
                    }
        ctx.rep.bounds["c07_configs"] = std::to_string(configs.size());
        for (auto& cfg : configs)
        {
            if (!ctx.mine())
                continue;
            if (ctx.out_of_time())
                return;
            alarm(60);
            ctx.world_fn = [&]() { return c07_world(cfg.first, {}); };
            with_grid(cfg.first,
                      [&](auto& grid)
                      {
                          using G = std::decay_t<decltype(grid)>;
                          c07_config<G>(ctx, cfg.first, cfg.second);
                          c07_pairs<G>(ctx, cfg.first);
                      });
            alarm(0);
        }
    }

    // ------------------------------------------------------------------ C17
    std::string c17_world(const GridSpec& g)
    {
        return "g=" + g.str();
    }

    template <class G>
    void c17_check_grid(Ctx& ctx, G& grid, const GridSpec& gs, const RefGeom& geo)
    {
        std::size_t n = static_cast<std::size_t>(geo.n);
        std::string w = c17_world(gs);
        auto V = [&](const std::string& sig, const std::string& det) { ctx.rep.violation("C17/" + sig, ctx.order(), w, det); };
        if (grid.size() != n)
        {
            V("size-differs", "");
            return;
        }
        for (std::size_t i = 0; i < n; ++i)
            if (static_cast<int>(grid.nodes_status(i)) != geo.status[i]
                || static_cast<int>(grid.nodes_status().flat(i)) != geo.status[i])
            {
                V("status-differs", "node " + std::to_string(i) + " expected " + status_char(geo.status[i]) + " got "
                                        + status_char(static_cast<int>(grid.nodes_status(i))));
                break;
            }
        // iteration, unfiltered and filtered, forward and reverse
        for (int s = -1; s < 4; ++s)
        {
            std::vector<std::size_t> want;
            for (std::size_t i = 0; i < n; ++i)
                if (s < 0 || geo.status[i] == s)
                    want.push_back(i);
            auto range = s < 0 ? grid.nodes_indices() : grid.nodes_indices(static_cast<fs::node_status>(s));
            std::vector<std::size_t> got;
            std::size_t guard = 0;
            ctx.current_stage = "forward-node-iteration";
            for (auto it = range.begin(); !(it == range.end()) && guard < 4 * n + 8; ++it, ++guard)
                got.push_back(*it);
            ++ctx.rep.ops;
            std::string tag = s < 0 ? "all" : std::string(1, status_char(s));
            if (got != want)
                V("forward-iteration-differs/filter-" + tag,
                  "expected " + std::to_string(want.size()) + " indices, got " + std::to_string(got.size()));
            std::vector<std::size_t> rgot;
            guard = 0;
            ctx.current_stage = "reverse-node-iteration";
            for (auto it = range.rbegin(); !(it == range.rend()) && guard < 4 * n + 8; ++it, ++guard)
            {
                // dereferenced exactly as a caller would (the lifetime of what operator*
                // refers to is C08's business; here only the values are judged)
                rgot.push_back(*it);
            }
            ++ctx.rep.ops;
            std::vector<std::size_t> rwant(want.rbegin(), want.rend());
            if (rgot != rwant)
                V("reverse-iteration-differs/filter-" + tag,
                  "expected " + std::to_string(rwant.size()) + " indices, got " + std::to_string(rgot.size()));
            if (!want.empty())
                ctx.rep.hit("non-empty-filtered-iterations");
        }
        ctx.current_stage = "flow-graph-construction";
        // default base levels of a new flow graph
        {
            Program p = Program::parse("single");
            Built<G> b = build_graph(grid, p);
            auto bl = b.fg->base_levels();
            std::set<std::size_t> got(bl.begin(), bl.end()), want;
            for (std::size_t i = 0; i < n; ++i)
                if (geo.status[i] == FIXED_VALUE)
                    want.insert(i);
            ++ctx.rep.ops;
            if (got != want || bl.size() != want.size())
                V("default-base-levels-differ",
                  "expected " + std::to_string(want.size()) + " fixed-value nodes, got " + std::to_string(bl.size()));
        }
        Hasher h;
        h.seq(geo.status);
        h.pod(gs.kind);
        ++ctx.rep.nontrivial;
        ctx.rep.digest(h.h);
    }

    void c17_one(Ctx& ctx, const GridSpec& gs)
    {
        RefGeom geo = ref_geometry(gs);
        ++ctx.rep.worlds;
        ++ctx.rep.evaluations;
        bool threw = false;
        std::string what;
        try
        {
            with_grid(gs,
                      [&](auto& grid)
                      {
                          if (geo.constructible)
                              c17_check_grid(ctx, grid, gs, geo);
                      });
        }
        catch (const std::exception& e)
        {
            threw = true;
            what = e.what();
        }
        ++ctx.rep.ops;
        if (threw && geo.constructible)
            ctx.rep.violation("C17/admissible-configuration-rejected", ctx.order(), c17_world(gs), what);
        if (!threw && !geo.constructible)
            ctx.rep.violation("C17/inadmissible-configuration-accepted", ctx.order(), c17_world(gs), "");
        if (!geo.constructible)
        {
            ctx.rep.hit("rejections-expected");
            Hasher h;
            h.str(gs.str());
            ++ctx.rep.nontrivial;
            ctx.rep.digest(h.h);
        }
    }

    void run_c17(Ctx& ctx)
    {
        const bool th = ctx.thorough();
        if (ctx.replay_mode)
        {
            auto kv = parse_kv(ctx.args.replay);
            c17_one(ctx, GridSpec::parse(kv["g"]));
            return;
        }
        std::vector<GridSpec> specs;
        auto with_overrides = [&](GridSpec g, int maxov)
        {
            int n = g.size();
            specs.push_back(g);
            if (maxov >= 1)
                for (int i = -1; i <= n; ++i)  // -1 and n are out-of-range keys
                    for (int s = 0; s < 4; ++s)
                    {
                        GridSpec h = g;
                        h.overrides = { { i, s } };
                        specs.push_back(h);
                    }
            if (maxov >= 1 && g.kind == RASTER)
            {
                // raw (row, col) keys that are out of range in one dimension only (the flat
                // index row * ncols + col may still be a valid one), and in both
                std::vector<std::array<int, 2>> keys;
                for (int r = 0; r < g.nr; ++r)
                {
                    keys.push_back({ r, g.nc });
                    keys.push_back({ r, g.nc + 1 });
                }
                for (int c = 0; c < g.nc; ++c)
                    keys.push_back({ g.nr, c });
                keys.push_back({ g.nr, g.nc });
                keys.push_back({ 0, 2 * g.nc });
                keys.push_back({ g.nr - 1, g.nc - 1 });  // in range: must be accepted
                for (auto& k : keys)
                    for (int s = 0; s < 4; ++s)
                    {
                        GridSpec h = g;
                        h.overrides = { { 100000 + k[0] * 100 + k[1], s } };
                        specs.push_back(h);
                    }
            }
            if (maxov >= 2)
                for (int i = 0; i < n; ++i)
                    for (int j = i + 1; j < n; ++j)
                        for (int s = 0; s < 4; ++s)
                            for (int t = 0; t < 4; ++t)
                            {
                                GridSpec h = g;
                                h.overrides = { { i, s }, { j, t } };
                                specs.push_back(h);
                            }
        };
        for (int n : th ? std::vector<int>{ 2, 3, 4, 6 } : std::vector<int>{ 2, 3, 4 })
            for (int bl = 0; bl < 4; ++bl)
                for (int br = 0; br < 4; ++br)
                    for (bool cache : { true, false })
                        with_overrides(profile_spec(n, bl, br, 1.0, cache), cache ? 2 : 1);
        std::vector<std::array<int, 2>> shapes = { { 2, 2 }, { 2, 3 }, { 3, 3 } };
        if (th)
        {
            shapes.push_back({ 3, 2 });
            shapes.push_back({ 3, 4 });
            shapes.push_back({ 4, 4 });
            shapes.push_back({ 2, 5 });
            shapes.push_back({ 5, 3 });
        }
        for (int rc : { QUEEN, ROOK, BISHOP })
            for (auto& sh : shapes)
                for (int code = 0; code < 256; ++code)
                {
                    int b[4] = { code & 3, (code >> 2) & 3, (code >> 4) & 3, (code >> 6) & 3 };
                    for (bool cache : { true, false })
                    {
                        if (!cache && rc != QUEEN)
                            continue;
                        int maxov = (rc == QUEEN && cache) ? ((sh[0] * sh[1] <= 6 || th) ? 2 : 1) : (cache ? 1 : 0);
                        if (sh[0] * sh[1] > 9)
                            maxov = std::min(maxov, 1);
                        with_overrides(raster_spec(rc, sh[0], sh[1], b, 1.0, 2.0, cache), maxov);
                    }
                }
        // meshes: the three status constructors (+ the two that must throw)
        for (const char* cells : { "1111", "2121", "3456", "1001", "0000" })
            for (int sm = 0; sm < 5; ++sm)
            {
                GridSpec g;
                g.kind = TRIMESH;
                for (int i = 0; i < 4; ++i)
                    g.cells[i] = cells[i] - '0';
                g.smode = sm;
                g.cache = false;
                specs.push_back(g);
            }
        ctx.rep.bounds["c17_configs"] = std::to_string(specs.size());
        bool sampled = false;
        for (auto& g : specs)
        {
            if (!ctx.mine())
                continue;
            if ((ctx.rep.worlds & 0xff) == 0 && ctx.out_of_time())
                return;
            alarm(20);
            ctx.world_fn = [&]() { return c17_world(g); };
            c17_one(ctx, g);
            alarm(0);
            if (!sampled && ctx.shard == 1 && !g.overrides.empty())
            {
                ctx.rep.sample(c17_world(g));
                sampled = true;
            }
        }
    }

    // ------------------------------------------------------------------ C18
    struct MeshModel
    {
        bool planar_ok = true;
        double min_area = 1e300;
        std::vector<double> node_area;
        double total_area = 0;
        std::vector<int> isolated;
    };
    MeshModel mesh_model(const GridSpec& gs)
    {
        MeshData m = make_mesh(gs);
        MeshModel mm;
        mm.node_area.assign(9, 0.0);
        mm.isolated.assign(9, 1);
        GridSpec g0 = gs;
        g0.vorder = 0;
        MeshData m0 = make_mesh(g0);
        // with vertex order 0 the generator lists every triangle counter-clockwise on the
        // regular lattice; a non-positive orientation after jittering means the triangle folded
        for (auto& t : m0.triangles)
        {
            auto& A = m0.points[static_cast<std::size_t>(t[0])];
            auto& B = m0.points[static_cast<std::size_t>(t[1])];
            auto& C = m0.points[static_cast<std::size_t>(t[2])];
            double cr = (B[0] - A[0]) * (C[1] - A[1]) - (B[1] - A[1]) * (C[0] - A[0]);
            if (cr <= 0)
                mm.planar_ok = false;
        }
        for (auto& t : m.triangles)
        {
            long double P[3][2];
            for (int k = 0; k < 3; ++k)
            {
                P[k][0] = m.points[static_cast<std::size_t>(t[static_cast<std::size_t>(k)])][0];
                P[k][1] = m.points[static_cast<std::size_t>(t[static_cast<std::size_t>(k)])][1];
                mm.isolated[static_cast<std::size_t>(t[static_cast<std::size_t>(k)])] = 0;
            }
            long double cr = (P[1][0] - P[0][0]) * (P[2][1] - P[0][1]) - (P[1][1] - P[0][1]) * (P[2][0] - P[0][0]);
            long double area = std::fabs(cr) / 2;
            mm.min_area = std::min<double>(mm.min_area, static_cast<double>(area));
            mm.total_area += static_cast<double>(area);
            for (int k = 0; k < 3; ++k)
            {
                // vertex k; the other two vertices a, b; edges k-a and k-b; angle at b is
                // opposite edge k-a, angle at a is opposite edge k-b
                int a = (k + 1) % 3, b = (k + 2) % 3;
                auto dot = [&](int o, int u, int v)
                { return (P[u][0] - P[o][0]) * (P[v][0] - P[o][0]) + (P[u][1] - P[o][1]) * (P[v][1] - P[o][1]); };
                auto len2 = [&](int u, int v)
                { return (P[u][0] - P[v][0]) * (P[u][0] - P[v][0]) + (P[u][1] - P[v][1]) * (P[u][1] - P[v][1]); };
                long double cot_b = dot(b, k, a) / (2 * area);
                long double cot_a = dot(a, k, b) / (2 * area);
                long double share = (len2(k, a) * cot_b + len2(k, b) * cot_a) / 8;
                mm.node_area[static_cast<std::size_t>(t[static_cast<std::size_t>(k)])] += static_cast<double>(share);
            }
        }
        return mm;
    }

    void c18_one(Ctx& ctx, const GridSpec& gs)
    {
        ++ctx.rep.worlds;
        MeshModel mm = mesh_model(gs);
        if (!mm.planar_ok || mm.min_area < 1e-3)
        {
            ++ctx.rep.skipped;  // folded or degenerate after jitter: outside "planar triangulation"
            return;
        }
        RefGeom geo = ref_geometry(gs);
        std::string w = "g=" + gs.str();
        auto V = [&](const std::string& sig, const std::string& det) { ctx.rep.violation("C18/" + sig, ctx.order(), w, det); };
        ++ctx.rep.evaluations;
        with_grid(gs,
                  [&](auto& grid)
                  {
                      using G = std::decay_t<decltype(grid)>;
                      if constexpr (!G::is_structured())
                      {
                          ++ctx.rep.ops;
                          double total = 0;
                          for (std::size_t i = 0; i < 9; ++i)
                          {
                              // connectivity
                              auto nbs = grid.neighbors(i);
                              std::vector<std::pair<std::size_t, double>> got, want;
                              for (auto& nb : nbs)
                                  got.push_back({ nb.idx, nb.distance });
                              for (auto& nb : geo.nb[i])
                                  want.push_back({ static_cast<std::size_t>(nb.idx), nb.dist });
                              std::sort(got.begin(), got.end());
                              std::sort(want.begin(), want.end());
                              if (got.size() != want.size())
                              {
                                  V("neighbour-count-differs", "node " + std::to_string(i) + " expected "
                                                                   + std::to_string(want.size()) + " got "
                                                                   + std::to_string(got.size()));
                                  continue;
                              }
                              for (std::size_t k = 0; k < got.size(); ++k)
                              {
                                  if (got[k].first != want[k].first)
                                  {
                                      V("neighbour-set-differs", "node " + std::to_string(i));
                                      break;
                                  }
                                  if (!(std::fabs(got[k].second - want[k].second) <= 1e-12 * (1 + want[k].second)))
                                  {
                                      V("distance-differs", "node " + std::to_string(i) + " neighbour "
                                                                + std::to_string(got[k].first) + " " + hexd(got[k].second)
                                                                + " vs " + hexd(want[k].second));
                                      break;
                                  }
                              }
                              if (grid.neighbors_count(i) != want.size())
                                  V("count-accessor-differs", "node " + std::to_string(i));
                              // status
                              if (static_cast<int>(grid.nodes_status(i)) != geo.status[i])
                                  V(gs.smode == 0 ? "default-boundary-status-differs" : "explicit-status-differs",
                                    "node " + std::to_string(i) + " expected " + status_char(geo.status[i]) + " got "
                                        + status_char(static_cast<int>(grid.nodes_status(i))));
                              // areas
                              double a = grid.nodes_areas(i);
                              if (mm.isolated[i])
                              {
                                  if (a != std::numeric_limits<double>::min())
                                      V("isolated-node-area", "node " + std::to_string(i) + " area " + hexd(a));
                              }
                              else
                              {
                                  total += a;
                                  if (!(std::fabs(a - mm.node_area[i]) <= 1e-11 * (1 + std::fabs(mm.node_area[i]))))
                                      V("node-area-differs", "node " + std::to_string(i) + " area " + hexd(a)
                                                                 + " circumcentric share " + hexd(mm.node_area[i]));
                              }
                          }
                          auto all = grid.nodes_areas();
                          for (std::size_t i = 0; i < 9; ++i)
                              if (all(i) != grid.nodes_areas(i))
                                  V("area-accessors-disagree", "node " + std::to_string(i));
                          if (!(std::fabs(total - mm.total_area) <= 1e-11 * (1 + mm.total_area)))
                              V("areas-do-not-sum-to-triangle-area",
                                "sum " + hexd(total) + " triangles " + hexd(mm.total_area));
                          Hasher h;
                          for (std::size_t i = 0; i < 9; ++i)
                          {
                              h.pod(grid.neighbors_count(i));
                              h.pod(mm.node_area[i]);
                          }
                          if (mm.total_area > 0)
                          {
                              ++ctx.rep.nontrivial;
                              ctx.rep.digest(h.h);
                          }
                          bool obtuse = false;
                          for (std::size_t i = 0; i < 9; ++i)
                              if (!mm.isolated[i] && mm.node_area[i] < 0)
                                  obtuse = true;
                          if (obtuse)
                              ctx.rep.hit("meshes-with-negative-share");
                          for (std::size_t i = 0; i < 9; ++i)
                              if (mm.isolated[i])
                              {
                                  ctx.rep.hit("meshes-with-isolated-node");
                                  break;
                              }
                      }
                  });
    }

    void run_c18(Ctx& ctx)
    {
        const bool th = ctx.thorough();
        if (ctx.replay_mode)
        {
            auto kv = parse_kv(ctx.args.replay);
            c18_one(ctx, GridSpec::parse(kv["g"]));
            return;
        }
        bool sampled = false;
        for (int code = 0; code < 2401; ++code)
        {
            int c[4] = { code % 7, (code / 7) % 7, (code / 49) % 7, code / 343 };
            bool simple = true;
            for (int k = 0; k < 4; ++k)
                if (c[k] > 2)
                    simple = false;
            for (int jit = 0; jit < (th ? 4 : 3); ++jit)
                for (int vo = 0; vo < 18; ++vo)
                {
                    // quick: all uniform vertex orders on the full/absent/split cells, two orders
                    // otherwise; two of the twelve mixed-winding orders (all of them in thorough)
                    if (!th && vo < 6 && !simple && vo != (code % 6) && vo != ((code + 3) % 6))
                        continue;
                    if (!th && vo >= 6 && vo != 6 + (code % 6) && vo != 12 + ((code + 3) % 6))
                        continue;
                    for (int sm : { 0 })
                    {
                        GridSpec g;
                        g.kind = TRIMESH;
                        for (int k = 0; k < 4; ++k)
                            g.cells[k] = c[k];
                        g.jitter = jit;
                        g.vorder = vo;
                        g.smode = sm;
                        g.cache = false;
                        if (!ctx.mine())
                            continue;
                        if ((ctx.rep.worlds & 0xff) == 0 && ctx.out_of_time())
                            return;
                        alarm(20);
                        ctx.world_fn = [&]() { return "g=" + g.str(); };
                        c18_one(ctx, g);
                        alarm(0);
                        if (!sampled && ctx.shard == 2 && code > 400)
                        {
                            ctx.rep.sample("g=" + g.str());
                            sampled = true;
                        }
                    }
                }
        }
    }
}

int main(int argc, char** argv)
{
    return sse_main(argc, argv, { "C07", "C17", "C18" },
                    [&](Ctx& ctx)
                    {
                        const Args& a = ctx.args;
                        if (a.property == "C07")
                        {
                            if (ctx.replay_mode)
                                c07_replay(ctx, a.replay);
                            else
                                run_c07(ctx);
                        }
                        else if (a.property == "C17")
                            run_c17(ctx);
                        else
                            run_c18(ctx);
                    });
}
