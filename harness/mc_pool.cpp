// MCSCHED harness for C11: the real thread_pool under the controlled scheduler.
//  * schedule exploration of the library's call patterns (router / kernel), judged on
//    exactly-once execution, block shape, completion before return, no hang, no data race
//    (happens-before detector over explicit job-input / job-output events);
//  * exhaustive block arithmetic through the real thread_pool::blocks (no threads).
#include "common.hpp"
#include "mc_explore.hpp"
#include "mc_shims.hpp"

#include <cassert>
#include <future>
#include <iostream>
#include <vector>

#define atomic verif_atomic
#define atomic_bool verif_atomic_bool
#define mutex verif_mutex
#define condition_variable verif_cv
#define thread verif_thread
#include "fastscapelib/utils/thread_pool.hpp"
#undef atomic
#undef atomic_bool
#undef mutex
#undef condition_variable
#undef thread

using namespace sse;

namespace
{
    // ------------------------------------------------------------------ scenarios
    struct Pattern
    {
        char kind = 'R';  // R: resume; resize(t); run_blocks; pause   K: same with `levels` dispatches
        int t = 2, n = 3, min_size = 0, levels = 1;
    };
    struct Scenario
    {
        std::vector<Pattern> pats;
        std::string str() const
        {
            std::string s;
            for (std::size_t i = 0; i < pats.size(); ++i)
            {
                const auto& p = pats[i];
                s += (i ? "/" : "") + std::string(1, p.kind) + "," + std::to_string(p.t) + "," + std::to_string(p.n) + ","
                     + std::to_string(p.min_size) + "," + std::to_string(p.levels);
            }
            return s;
        }
        static Scenario parse(const std::string& s)
        {
            Scenario sc;
            for (auto& part : split(s, '/'))
            {
                auto f = split(part, ',');
                if (f.size() < 5)
                    continue;
                Pattern p;
                p.kind = f[0][0];
                p.t = std::atoi(f[1].c_str());
                p.n = std::atoi(f[2].c_str());
                p.min_size = std::atoi(f[3].c_str());
                p.levels = std::atoi(f[4].c_str());
                sc.pats.push_back(p);
            }
            return sc;
        }
    };

    void run_scenario(const Scenario& sc)
    {
        std::vector<int> in, out, cnt;
        std::string err;
        std::size_t nmax = 1;
        for (const auto& p : sc.pats)
            nmax = std::max(nmax, static_cast<std::size_t>(p.n));
        // allocated once: the same datum keeps the same address through all rounds
        in.assign(nmax, 0);
        out.assign(nmax, 0);
        cnt.assign(nmax, 0);
        {
            // constructed exactly as flow_graph does
            fastscapelib::thread_pool<std::size_t> pool(10);
            int round = 0;
            for (const auto& p : sc.pats)
            {
                mc::note("pattern");
                pool.resume();
                pool.resize(static_cast<std::size_t>(p.t));
                for (int lv = 0; lv < p.levels; ++lv, ++round)
                {
                    std::size_t n = static_cast<std::size_t>(p.n);
                    for (std::size_t i = 0; i < n; ++i)
                    {
                        cnt[i] = 0;
                        mc::data_write(&in[i], "job-input-written-by-caller", nullptr, 0x1000 + i);
                        in[i] = 10 * round + static_cast<int>(i);
                    }
                    struct Call
                    {
                        std::size_t runner, a, b;
                    };
                    std::vector<Call> calls;
                    int in_flight = 0;
                    auto f = [&](std::size_t runner, std::size_t a, std::size_t b)
                    {
                        ++in_flight;
                        calls.push_back({ runner, a, b });
                        for (auto i = a; i < b && i < n; ++i)
                        {
                            mc::data_read(&in[i], "job-input-read-by-worker", nullptr, 0x1000 + i);
                            mc::data_write(&out[i], "job-output-written-by-worker", nullptr, 0x2000 + i);
                            out[i] = in[i] + 1;
                            cnt[i]++;
                        }
                        --in_flight;
                    };
                    mc::note("run_blocks");
                    pool.run_blocks(std::size_t(0), n, f, static_cast<std::size_t>(p.min_size));
                    mc::note("returned");
                    if (in_flight != 0)
                        err = "run_blocks-returned-while-callbacks-running";
                    for (std::size_t i = 0; i < n; ++i)
                    {
                        mc::data_read(&out[i], "job-output-read-by-caller", nullptr, 0x2000 + i);
                        if (cnt[i] != 1)
                            err = cnt[i] == 0 ? "index-not-executed" : "index-executed-more-than-once";
                        else if (out[i] != 10 * round + static_cast<int>(i) + 1)
                            err = "stale-or-wrong-output";
                    }
                    // block shape: disjoint, contiguous, increasing, one per runner, count <= pool size
                    std::sort(calls.begin(), calls.end(), [](const Call& x, const Call& y) { return x.a < y.a; });
                    std::size_t pos = 0;
                    std::set<std::size_t> runners;
                    for (auto& c : calls)
                    {
                        if (c.a != pos || c.b <= c.a || c.b > n)
                            err = "blocks-not-a-contiguous-partition";
                        pos = c.b;
                        if (!runners.insert(c.runner).second || c.runner >= static_cast<std::size_t>(p.t))
                            err = "runner-id-reused-or-out-of-range";
                    }
                    if (n > 0 && pos != n)
                        err = "blocks-do-not-cover-the-range";
                    if (calls.size() > static_cast<std::size_t>(p.t))
                        err = "more-blocks-than-workers";
                    if (!err.empty())
                        mc::fail("ASSERT", err);
                }
                pool.pause();
            }
            mc::note("destroy");
        }
        mc::note("done");
    }

    // hang / race / assertion -> mechanism signature (without the "C11/" prefix)
    std::vector<std::string> signatures(const mc::Result& r)
    {
        std::vector<std::string> out;
        if (r.verdict == "HANG")
        {
            // normalise: strip object numbers, sort worker descriptions
            std::vector<std::string> parts;
            for (auto& tok : split(r.detail, ' '))
            {
                if (tok.empty())
                    continue;
                auto h = tok.find('#');
                parts.push_back(h == std::string::npos ? tok : tok.substr(0, h));
            }
            std::sort(parts.begin(), parts.end());
            parts.erase(std::unique(parts.begin(), parts.end()), parts.end());
            std::string s = "hang";
            for (auto& p : parts)
                if (p.find("done") == std::string::npos)
                    s += "/" + p;
            out.push_back(s);
        }
        else if (r.verdict == "ASSERT")
            out.push_back("assert/" + r.detail);
        else if (r.verdict == "HORIZON")
            out.push_back("livelock-or-horizon");
        else if (r.verdict == "WATCHDOG")
            out.push_back("unhooked-spin-or-watchdog");
        else if (r.verdict == "SIGNAL")
            out.push_back("crash/signal-" + r.detail);  // abort (libstdc++ assertion), segmentation fault ...
        else if (r.verdict != "OK" && r.verdict != "RACE")
            out.push_back("harness/" + r.verdict);
        for (auto& rc : r.races)
        {
            // kind|label|pc|other label|other pc  -> kind + the two labels
            auto f = split(rc, '|');
            if (f.size() >= 4)
                out.push_back("race/" + f[0] + "/" + f[1] + "/vs/" + f[3]);
        }
        return out;
    }

    std::string sched_str(const std::vector<int>& s)
    {
        std::string o;
        for (std::size_t i = 0; i < s.size(); ++i)
            o += (i ? " " : "") + std::to_string(s[i]);
        return o;
    }

    // ------------------------------------------------------------------ block arithmetic
    void check_blocks(Report& rep)
    {
        using blocks_t = fastscapelib::thread_pool<std::size_t>::blocks;
        for (std::size_t first = 0; first <= 12; ++first)
            for (std::size_t last = 0; last <= 12; ++last)
                for (std::size_t nb = 1; nb <= 16; ++nb)
                    for (std::size_t ms = 0; ms <= 8; ++ms)
                    {
                        ++rep.evaluations;
                        ++rep.ops;
                        blocks_t b(first, last, nb, ms);
                        std::string w = "blocks=" + std::to_string(first) + "," + std::to_string(last) + "," + std::to_string(nb) + ","
                                        + std::to_string(ms);
                        std::string err;
                        std::size_t k = b.num_blocks();
                        if (last <= first)
                        {
                            if (k != 0)
                                err = "empty-range-has-blocks";
                        }
                        else
                        {
                            std::size_t total = last - first, pos = first, mn = total, mx = 0;
                            if (k == 0 || k > nb)
                                err = "block-count-out-of-range";
                            for (std::size_t i = 0; i < k && err.empty(); ++i)
                            {
                                if (b.start(i) != pos || b.end(i) <= b.start(i) || b.end(i) > last)
                                    err = "blocks-not-a-contiguous-partition";
                                std::size_t sz = b.end(i) - b.start(i);
                                mn = std::min(mn, sz);
                                mx = std::max(mx, sz);
                                pos = b.end(i);
                            }
                            if (err.empty() && pos != last)
                                err = "blocks-do-not-cover-the-range";
                            if (err.empty() && mx - mn > 1)
                                err = "block-sizes-differ-by-more-than-one";
                            if (err.empty() && ms > 0 && total >= ms && mn < ms)
                                err = "block-smaller-than-min-size";
                            Hasher h;
                            h.pod(k);
                            h.pod(mn);
                            h.pod(mx);
                            h.pod(total);
                            ++rep.nontrivial;
                            rep.digest(h.h);
                        }
                        if (!err.empty())
                            rep.violation("C11/blocks/" + err, rep.evaluations, w, "first,last,pool size,min size = " + w.substr(7));
                    }
    }
}

int main(int argc, char** argv)
{
    Args a = parse_args(argc, argv);
    if (a.property != "C11")
    {
        std::fprintf(stderr, "mc_pool serves C11\n");
        return 2;
    }
    auto t0 = std::chrono::steady_clock::now();
    Report rep;
    if (!a.replay.empty())
    {
        auto kv = parse_kv(a.replay);
        if (kv.count("blocks"))
        {
            // re-run the whole (tiny) arithmetic enumeration; the recorded case is part of it
            check_blocks(rep);
        }
        else
        {
            Scenario sc = Scenario::parse(kv["s"]);
            std::vector<int> sched;
            for (auto& t : split(kv["sched"], ' '))
                if (!t.empty())
                    sched.push_back(std::atoi(t.c_str()));
            int spur = kv.count("spurious") ? std::atoi(kv["spurious"].c_str()) : 0;
            mc::Result r = mc::run_schedule([&]() { run_scenario(sc); }, sched, true, spur);
            ++rep.worlds;
            ++rep.evaluations;
            for (auto& sg : signatures(r))
                rep.violation("C11/" + sg, 0, a.replay, r.verdict + ": " + r.detail);
            if (std::getenv("MC_TRACE"))
                for (auto& l : r.trace)
                    std::fprintf(stderr, "%s\n", l.c_str());
        }
        std::string js = rep.to_json(a, 0.0);
        std::fputs(js.c_str(), stdout);
        return 0;
    }
    const bool th = a.thorough();
    struct Job
    {
        std::string scen;
        int bound;
        bool cache;
        int spurious;
    };
    std::vector<Job> jobs;
    if (!th)
    {
        jobs = { { "R,2,3,0,1", 2, false, 0 },          // router pattern, un-cached bound 2
                 { "R,2,1,0,1", 2, false, 0 },          // one index: one worker gets no job
                 { "R,2,5,2,1", 1, false, 0 },          // min block size
                 { "R,2,3,0,1/R,2,3,0,1", 1, false, 0 },  // two patterns: pause -> resume
                 { "R,2,3,0,1/R,2,3,0,1", 2, true, 0 },
                 { "K,2,3,0,2", 2, true, 0 },           // kernel pattern: two levels between resume and pause
                 { "R,2,3,0,1/R,3,3,0,1", 1, true, 0 },  // resize between patterns
                 { "R,2,3,0,1", 2, true, 1 },           // one spurious wake-up allowed
                 { "R,2,3,0,1/R,2,3,0,1", 1, true, 2 } };
    }
    else
    {
        jobs = { { "R,2,3,0,1", 3, false, 0 },
                 { "R,2,3,0,1", -1, true, 0 },  // unbounded, state-cached
                 { "R,2,1,0,1", 3, false, 0 },
                 { "R,3,3,0,1", 2, false, 0 },
                 { "R,3,5,2,1", 2, true, 0 },
                 { "R,2,5,2,1", 2, false, 0 },
                 { "R,2,3,0,1/R,2,3,0,1", 2, false, 0 },
                 { "R,2,3,0,1/R,2,3,0,1", 3, true, 0 },
                 { "K,2,3,0,2", 2, false, 0 },
                 { "K,2,3,0,3", 2, true, 0 },
                 { "K,3,4,0,2", 2, true, 0 },
                 { "R,2,3,0,1/R,3,3,0,1", 2, true, 0 },
                 { "R,3,3,0,1/R,2,3,0,1", 2, true, 0 },
                 { "R,2,3,0,1/K,2,3,0,2/R,2,2,0,1", 2, true, 0 },
                 { "R,2,3,0,1", 2, false, 1 },
                 { "R,2,3,0,1/R,2,3,0,1", 2, true, 1 } };
    }
    // cheapest first (state-cached, low bound), so that the time they leave unused rolls over
    // to the un-cached high-bound searches at the end
    std::stable_sort(jobs.begin(), jobs.end(),
                     [](const Job& x, const Job& y)
                     {
                         auto cost = [](const Job& j) { return (j.cache ? 0 : 10) + (j.bound < 0 ? 1 : j.bound); };
                         return cost(x) < cost(y);
                     });
    check_blocks(rep);
    rep.bounds["block_arithmetic"] = "first,last in 0..12; pool size 1..16; min size 0..8 (exhaustive)";
    double budget = a.deadline_s;
    std::set<std::uint64_t> all_states;
    for (std::size_t ji = 0; ji < jobs.size(); ++ji)
    {
        const auto& j = jobs[ji];
        Scenario sc = Scenario::parse(j.scen);
        mc::ExploreConfig cfg;
        cfg.bound = j.bound;
        cfg.cache = j.cache;
        cfg.jobs = a.jobs;
        cfg.spurious = j.spurious;
        double el = std::chrono::duration<double>(std::chrono::steady_clock::now() - t0).count();
        double left = budget - el;
        // even share of what is left among the jobs still to run (unused time rolls over)
        cfg.deadline_s = std::max(5.0, left / static_cast<double>(jobs.size() - ji));
        mc::ExploreStats st = mc::explore([&]() { run_scenario(sc); }, cfg, signatures);
        std::string key = j.scen + " bound=" + (j.bound < 0 ? std::string("unbounded") : std::to_string(j.bound))
                          + (j.cache ? " cached" : " uncached") + (j.spurious ? " spurious=" + std::to_string(j.spurious) : "");
        rep.bounds[key] = std::string(st.complete ? "complete" : ("INCOMPLETE(" + st.incomplete_reason + ")")) + " executions="
                          + std::to_string(st.executions) + " states=" + std::to_string(st.states.size()) + " max_steps="
                          + std::to_string(st.max_steps) + " with_preemption=" + std::to_string(st.with_preemption);
        rep.worlds += st.states.size();
        rep.evaluations += static_cast<u64>(st.executions);
        rep.ops += static_cast<u64>(st.steps);
        rep.nontrivial += static_cast<u64>(st.with_preemption);
        for (auto h : st.outcomes)
            rep.digest(h ^ (0x9e3779b97f4a7c15ull * (ji + 1)));
        for (auto& kv : st.verdicts)
            rep.hit("verdict/" + kv.first, static_cast<u64>(kv.second));
        if (!st.complete)
            rep.deadline_hit = true;
        for (auto& kv : st.bad)
        {
            std::string world = "s=" + j.scen + ";bound=" + std::to_string(j.bound) + ";spurious=" + std::to_string(j.spurious)
                                + ";sched=" + sched_str(kv.second.schedule);
            rep.viol_counts["C11/" + kv.first] += static_cast<u64>(kv.second.count) - 1;
            rep.violation("C11/" + kv.first, static_cast<u64>(kv.second.schedule.size()), world,
                          kv.second.verdict + ": " + kv.second.detail + (kv.second.races.empty() ? "" : " | race " + kv.second.races.front()));
        }
        for (auto& s : st.sample_schedules)
            rep.sample("s=" + j.scen + ";sched=" + sched_str(s));
    }
    rep.compact();
    double wall = std::chrono::duration<double>(std::chrono::steady_clock::now() - t0).count();
    std::string js = rep.to_json(a, wall);
    if (a.out.empty())
        std::fputs(js.c_str(), stdout);
    else
    {
        std::ofstream f(a.out);
        f << js;
    }
    return 0;
}
