// SSE harness for the flow properties C01 C02 C03 C04 C05 C06 C19.
// One binary per grid family (-DFAM_<NAME>); worlds = grid configuration x mask x base
// levels x elevation pattern x value map x operator program (x exponent / history).
#include "flow_oracles.hpp"

using namespace sse;

namespace
{
    struct FlowCase
    {
        std::vector<double> elev;
        std::vector<double> elev2;  // second field for history properties
        bool has_mask = false;
        std::vector<int> mask;
        bool default_base = true;
        std::vector<std::size_t> base;
        Program prog;
        double p = 1.0, p2 = 2.0;
        std::string pat;  // informational
        int vm = -1;
    };

    std::string world_str(const GridSpec& g, const FlowCase& c)
    {
        std::ostringstream o;
        o << "g=" << g.str() << ";e=";
        for (std::size_t i = 0; i < c.elev.size(); ++i)
            o << (i ? " " : "") << hexd(c.elev[i]);
        if (!c.elev2.empty())
        {
            o << ";e2=";
            for (std::size_t i = 0; i < c.elev2.size(); ++i)
                o << (i ? " " : "") << hexd(c.elev2[i]);
        }
        o << ";m=";
        if (!c.has_mask)
            o << "-";
        else
            for (int b : c.mask)
                o << (b ? '1' : '0');
        o << ";b=";
        if (c.default_base)
            o << "d";
        else
            for (std::size_t i = 0; i < c.base.size(); ++i)
                o << (i ? " " : "") << c.base[i];
        o << ";prog=" << c.prog.str() << ";p=" << hexd(c.p) << ";p2=" << hexd(c.p2);
        if (!c.pat.empty())
            o << ";pat=" << c.pat << ";vm=" << c.vm;
        return o.str();
    }

    bool parse_world(const std::string& s, GridSpec& g, FlowCase& c)
    {
        auto kv = parse_kv(s);
        if (!kv.count("g") || !kv.count("e"))
            return false;
        g = GridSpec::parse(kv["g"]);
        for (auto& t : split(kv["e"], ' '))
            if (!t.empty())
                c.elev.push_back(unhexd(t));
        if (kv.count("e2"))
            for (auto& t : split(kv["e2"], ' '))
                if (!t.empty())
                    c.elev2.push_back(unhexd(t));
        std::string m = kv.count("m") ? kv["m"] : "-";
        c.has_mask = m != "-";
        if (c.has_mask)
            for (char ch : m)
                c.mask.push_back(ch == '1');
        std::string b = kv.count("b") ? kv["b"] : "d";
        c.default_base = b == "d";
        if (!c.default_base)
            for (auto& t : split(b, ' '))
                if (!t.empty())
                    c.base.push_back(static_cast<std::size_t>(std::atol(t.c_str())));
        c.prog = Program::parse(kv["prog"]);
        if (kv.count("p"))
            c.p = unhexd(kv["p"]);
        if (kv.count("p2"))
            c.p2 = unhexd(kv["p2"]);
        if (kv.count("pat"))
            c.pat = kv["pat"];
        if (kv.count("vm"))
            c.vm = std::atoi(kv["vm"].c_str());
        return true;
    }

    // resolver variant + the router that runs after it (the mechanism a finding is keyed on)
    std::string resolver_class(const Program& p)
    {
        std::string cls = "none";
        for (std::size_t k = 0; k < p.ops.size(); ++k)
        {
            const auto& o = p.ops[k];
            if (o == "pflood")
                cls = "pflood";
            else if (o.rfind("mst", 0) == 0)
            {
                auto parts = split(o, ':');
                cls = std::string(cls == "pflood" ? "pflood+mst-" : "mst-") + (parts[1] == "b" ? "boruvka" : "kruskal")
                      + "-" + (parts[2] == "b" ? "basic" : "carve");
                if (k + 1 < p.ops.size() && p.ops[k + 1] == "multi")
                    cls += "+multi";
            }
        }
        if (cls == "pflood")
            cls += p.has("multi") ? "+multi" : "+single";
        return cls;
    }

    // ------------------------------------------------------------------ evaluation
    template <class G>
    struct Runner
    {
        Ctx& ctx;
        G& grid;
        const GridSpec& gs;
        const RefGeom& geo;
        const std::string& prop;

        void report(const Findings& f, const FlowCase& c, const std::string& stage)
        {
            if (f.empty())
                return;
            std::string w = world_str(gs, c);
            for (auto& x : f)
                ctx.rep.violation(prop + "/" + x.sig, ctx.order(), w, stage + ": " + x.detail);
        }

        FlowInputs inputs(const FlowCase& c, const fs::flow_graph<G>& fg, const std::vector<double>& elev)
        {
            FlowInputs in;
            in.geo = &geo;
            in.in = elev;
            std::size_t n = static_cast<std::size_t>(geo.n);
            in.masked.assign(n, 0);
            in.base.assign(n, 0);
            if (c.has_mask)
                for (std::size_t i = 0; i < n; ++i)
                    in.masked[i] = c.mask[i] ? 1 : 0;
            for (auto b : fg.base_levels())
                if (b < n)
                    in.base[b] = 1;
            in.finish();
            return in;
        }

        // returns false when the world is outside the domain (no unmasked base level)
        bool in_domain(const FlowCase& c)
        {
            std::size_t n = static_cast<std::size_t>(geo.n);
            for (std::size_t i = 0; i < n; ++i)
            {
                bool isbase = c.default_base ? geo.status[i] == FIXED_VALUE
                                             : std::find(c.base.begin(), c.base.end(), i) != c.base.end();
                if (isbase && !(c.has_mask && c.mask[i]))
                    return true;
            }
            return false;
        }

        void configure(fs::flow_graph<G>& fg, const FlowCase& c)
        {
            if (!c.default_base)
                fg.set_base_levels(c.base);
            if (c.has_mask)
                fg.set_mask(make_mask(grid, c.mask));
        }

        void run(const FlowCase& c)
        {
            if (!in_domain(c))
            {
                ++ctx.rep.skipped;
                return;
            }
            ctx.current_stage = "update_routes";
            Built<G> b = build_graph(grid, c.prog, c.p);
            auto& fg = *b.fg;
            configure(fg, c);
            auto field = make_field(grid, c.elev);
            ++ctx.rep.evaluations;

            if (prop == "C01" || prop == "C02" || prop == "C04")
            {
                const auto& out = fg.update_routes(field);
                ++ctx.rep.ops;
                GState s = extract_state(fg.impl(), out);
                FlowInputs in = inputs(c, fg, c.elev);
                Findings f;
                bool nontrivial = false;
                if (prop == "C01")
                {
                    oracle_c01(in, s, resolver_class(c.prog), f);
                    for (std::size_t i = 0; i < s.n; ++i)
                        if (s.out[i] != c.elev[i])
                            nontrivial = true;
                }
                else if (prop == "C02")
                {
                    if (!in.all_conn)
                    {
                        ++ctx.rep.skipped;
                        return;
                    }
                    oracle_c02(in, s, resolver_class(c.prog), f);
                    for (std::size_t i = 0; i < s.n; ++i)
                        if (s.out[i] != c.elev[i])
                            nontrivial = true;
                }
                else
                {
                    oracle_c04(in, s, f);
                    for (std::size_t i = 0; i < s.n; ++i)
                        if (s.r(i, 0) != i)
                            nontrivial = true;
                }
                if (nontrivial)
                {
                    ++ctx.rep.nontrivial;
                    ctx.rep.digest(s.digest(false));
                }
                // The same world on a graph that has already routed another field ("start from
                // non-initial states too"): judged again only if the resulting state differs
                // from the fresh one (a difference that passes the oracle is C09's business).
                if (!c.elev2.empty() && f.empty())
                {
                    Built<G> wb = build_graph(grid, c.prog, c.p);
                    configure(*wb.fg, c);
                    // the earlier update also ran with another base-level set of the same size
                    // (every member moved to the next node), then the set of this world is put
                    // back: what counts is the set in force at the judged call
                    auto actual_base = wb.fg->base_levels();
                    {
                        std::set<std::size_t> decoy;
                        bool unmasked_member = false;
                        for (auto bi : actual_base)
                        {
                            std::size_t dn = (bi + 1) % s.n;
                            decoy.insert(dn);
                            if (!(c.has_mask && c.mask[dn]))
                                unmasked_member = true;  // stays inside the documented domain
                        }
                        if (decoy.size() == actual_base.size() && unmasked_member)
                        {
                            wb.fg->set_base_levels(std::vector<typename decltype(actual_base)::value_type>(decoy.begin(), decoy.end()));
                            ctx.rep.hit("reused-graph-with-other-base-levels-before");
                        }
                    }
                    auto other = make_field(grid, c.elev2);
                    wb.fg->update_routes(other);
                    wb.fg->set_base_levels(actual_base);
                    auto again = make_field(grid, c.elev);
                    const auto& wout = wb.fg->update_routes(again);
                    ctx.rep.ops += 2;
                    GState ws = extract_state(wb.fg->impl(), wout);
                    if (ws.digest(false) != s.digest(false))
                    {
                        Findings wf;
                        FlowInputs win = inputs(c, *wb.fg, c.elev);
                        if (prop == "C01")
                            oracle_c01(win, ws, resolver_class(c.prog), wf);
                        else if (prop == "C02")
                            oracle_c02(win, ws, resolver_class(c.prog), wf);
                        else
                            oracle_c04(win, ws, wf);
                        for (auto& x : wf)
                            x.sig += "/on-reused-graph";
                        report(wf, c, "update_routes on a graph that routed another field (e2) before");
                        ctx.rep.hit("reused-graph-state-differs-from-fresh");
                    }
                }
                // Boruvka's large-degree / edge-bucket path needs a basin with more than 16
                // adjacency entries, which grids of <= 16 nodes cannot produce: run the same world
                // with the private threshold lowered to 1, 2, 3 (fresh graph each).  A world on
                // which the contraction ends with a non-empty large-degree list (the algorithm's
                // standing assumption fails for that artificial threshold) is pre-screened on a
                // separate basin graph and not judged.
                if ((prop == "C01" || prop == "C02") && f.empty() && c.prog.str().rfind("single+mst:b:", 0) == 0)
                {
                    using impl_t = typename Built<G>::impl_t;
                    for (std::size_t thr : { std::size_t(1), std::size_t(3), std::size_t(2) })
                    {
                        if (thr == 2 && !ctx.thorough())
                            break;  // quick: thresholds 1 and 3
                        {
                            Built<G> pb = build_graph(grid, Program::parse("single"), c.p);
                            configure(*pb.fg, c);
                            auto fld = make_field(grid, c.elev);
                            pb.fg->update_routes(fld);
                            pb.fg->impl_ptr()->compute_basins();
                            fs::basin_graph<impl_t> bg(pb.fg->impl(), fs::mst_method::boruvka);
                            bg.m_max_low_degree = thr;
                            bg.update_routes(fld);
                            ++ctx.rep.ops;
                            if (!bg.m_large_degrees.empty())
                            {
                                ctx.rep.hit("low-threshold-worlds-not-judged");
                                continue;
                            }
                        }
                        Built<G> tb = build_graph(grid, c.prog, c.p);
                        configure(*tb.fg, c);
                        if (!set_boruvka_threshold(tb, thr))
                            break;
                        auto fld = make_field(grid, c.elev);
                        const auto& tout = tb.fg->update_routes(fld);
                        ++ctx.rep.ops;
                        ctx.rep.hit("low-threshold-worlds-judged");
                        GState ts = extract_state(tb.fg->impl(), tout);
                        if (ts.digest(false) == s.digest(false))
                            continue;
                        ctx.rep.hit("low-threshold-state-differs-from-default");
                        Findings tf;
                        FlowInputs tin = inputs(c, *tb.fg, c.elev);
                        if (prop == "C01")
                            oracle_c01(tin, ts, resolver_class(c.prog), tf);
                        else
                            oracle_c02(tin, ts, resolver_class(c.prog), tf);
                        for (auto& x : tf)
                            x.sig += "/boruvka-low-degree-threshold";
                        report(tf, c, "update_routes with the Boruvka low-degree threshold lowered to " + std::to_string(thr));
                    }
                }
                if (prop != "C04")
                {
                    std::size_t filled = 0;
                    for (std::size_t i = 0; i < s.n; ++i)
                        if (s.out[i] != c.elev[i])
                            ++filled;
                    if (filled)
                        ctx.rep.hit("worlds-with-filled-nodes/" + resolver_class(c.prog));
                    ctx.rep.hit("filled-nodes", filled);
                }
                report(f, c, "update_routes");
            }
            else if (prop == "C03")
            {
                const auto& out = fg.update_routes(field);
                ++ctx.rep.ops;
                GState s = extract_state(fg.impl(), out);
                Findings f;
                if (tables_ok(s, f))
                    check_accumulate(fg, s, c, f);
                report(f, c, "accumulate");
                if (!c.elev2.empty() && f.empty())
                {
                    // accumulate again after the same graph routed another field and came back
                    auto other = make_field(grid, c.elev2);
                    fg.update_routes(other);
                    (void) fg.accumulate(-3.0);
                    auto again = make_field(grid, c.elev);
                    const auto& out2 = fg.update_routes(again);
                    ctx.rep.ops += 3;
                    GState s2 = extract_state(fg.impl(), out2);
                    Findings f2;
                    if (tables_ok(s2, f2))
                        check_accumulate(fg, s2, c, f2);
                    for (auto& x : f2)
                        x.sig += "/on-reused-graph";
                    report(f2, c, "accumulate on a graph that routed another field (e2) in between");
                }
            }
            else if (prop == "C05")
            {
                for (int round = 0; round < 2; ++round)
                {
                    double p = round == 0 ? c.p : c.p2;
                    if (round == 1 && !c.elev2.empty())
                    {
                        // an unjudged update with another field in between
                        auto other = make_field(grid, c.elev2);
                        fg.update_routes(other);
                        ++ctx.rep.ops;
                    }
                    for (auto& m : b.multis)
                        m->m_slope_exp = p;
                    const auto& out = fg.update_routes(field);
                    ++ctx.rep.ops;
                    GState s = extract_state(fg.impl(), out);
                    FlowInputs in = inputs(c, fg, c.elev);
                    Findings f;
                    oracle_c05(in, s, p, f);
                    bool nontrivial = false;
                    for (std::size_t i = 0; i < s.n && !f.empty() == false; ++i)
                        if (s.rcount[i] > 1)
                            nontrivial = true;
                    if (nontrivial)
                    {
                        ++ctx.rep.nontrivial;
                        ctx.rep.digest(s.digest(false));
                    }
                    report(f, c, round == 0 ? "first update (p)" : "second update after exponent change (p2)");
                }
            }
            else if (prop == "C06")
            {
                const std::vector<double>* seq[3] = { &c.elev, c.elev2.empty() ? &c.elev : &c.elev2, &c.elev };
                static const char* names[3] = { "update 1", "update 2 (other field)", "update 3 (first field again)" };
                for (int k = 0; k < 3; ++k)
                {
                    auto fld = make_field(grid, *seq[k]);
                    const auto& out = fg.update_routes(fld);
                    ++ctx.rep.ops;
                    GState s = extract_state(fg.impl(), out);
                    Findings f;
                    oracle_c06(s, f);
                    if (s.shape_ok && s.levels.size() > 2)
                    {
                        ++ctx.rep.nontrivial;
                        ctx.rep.digest(s.digest(true));
                        ctx.rep.hit("bfs-levels", s.levels.size() - 1);
                    }
                    report(f, c, names[k]);
                }
            }
            else if (prop == "C19")
            {
                const std::vector<double>* seq[3] = { &c.elev, c.elev2.empty() ? &c.elev : &c.elev2, &c.elev };
                static const char* names[3] = { "basins after update 1", "basins after update 2 (other field)",
                                                "basins called twice after update 3" };
                for (int k = 0; k < 3; ++k)
                {
                    auto fld = make_field(grid, *seq[k]);
                    const auto& out = fg.update_routes(fld);
                    ++ctx.rep.ops;
                    if (k == 2)
                        (void) fg.basins();
                    auto lab = fg.basins();
                    ++ctx.rep.ops;
                    GState s = extract_state(fg.impl(), out);
                    FlowInputs in = inputs(c, fg, *seq[k]);
                    std::vector<std::size_t> labels(lab.begin(), lab.end());
                    std::vector<std::size_t> outlets = fg.impl().outlets();
                    std::vector<std::size_t> pits = fg.impl_ptr()->pits();
                    Findings f;
                    oracle_c19(in, s, labels, outlets, pits, f);
                    if (outlets.size() >= 2)
                    {
                        ++ctx.rep.nontrivial;
                        Hasher h;
                        h.seq(labels);
                        ctx.rep.digest(h.h);
                    }
                    report(f, c, names[k]);
                    // a graph snapshot is a single-direction flow graph too: its labelling is
                    // judged after every update (it is refreshed behind its back by the parent)
                    for (auto& op : c.prog.ops)
                        if (op.rfind("gsnap", 0) == 0 && f.empty())
                        {
                            auto& sg = fg.graph_snapshot(op);
                            auto slab = sg.basins();
                            ++ctx.rep.ops;
                            GState ss = extract_state(sg.impl(), out);
                            std::vector<std::size_t> slabels(slab.begin(), slab.end());
                            std::vector<std::size_t> soutlets = sg.impl().outlets();
                            std::vector<std::size_t> spits = sg.impl_ptr()->pits();
                            Findings sf;
                            oracle_c19(in, ss, slabels, soutlets, spits, sf);
                            for (auto& x : sf)
                                x.sig += "/on-graph-snapshot";
                            report(sf, c, std::string(names[k]) + ", snapshot " + op);
                            ctx.rep.hit("snapshot-graphs-labelled");
                        }
                }
            }
        }

        // C03: local balance, conservation, sign, overload agreement
        void check_accumulate(fs::flow_graph<G>& fg, const GState& s, const FlowCase& c, Findings& f)
        {
            using arr_t = typename fs::flow_graph<G>::data_array_type;
            std::size_t n = s.n;
            for (std::size_t i = 0; i < n; ++i)
                for (std::size_t k = 0; k < s.rcount[i]; ++k)
                    if (!std::isfinite(s.w(i, k)))
                    {
                        // a non-finite partition fraction is C05's finding; what C03 states is
                        // still decidable: the accumulated values must be finite and conserve
                        // the source, which they cannot with such a weight
                        arr_t a1 = fg.accumulate(1.0);
                        ++ctx.rep.ops;
                        for (std::size_t q = 0; q < n; ++q)
                            if (!std::isfinite(a1.flat(q)))
                            {
                                f.push_back({ "non-finite-accumulation", "node " + node_s(q) + " accumulate(1) = " + hexd(a1.flat(q))
                                                                             + " (partition weight of node " + node_s(i) + " is not finite)" });
                                return;
                            }
                        ++ctx.rep.skipped;
                        return;
                    }
            std::vector<double> area(n);
            for (std::size_t i = 0; i < n; ++i)
                area[i] = grid.nodes_areas(i);
            bool has_donor = false;
            for (std::size_t i = 0; i < n; ++i)
                if (s.r(i, 0) != i)
                    has_donor = true;

            std::vector<std::vector<double>> sources;
            std::vector<int> scalar;  // 1 if the source is uniform (scalar overloads apply)
            for (double v : { 1.0, 2.5, -1.0, 0.0 })
            {
                sources.push_back(std::vector<double>(n, v));
                scalar.push_back(1);
            }
            {
                std::vector<double> a(n), b2(n), c3(n);
                for (std::size_t i = 0; i < n; ++i)
                {
                    a[i] = static_cast<double>((i * 7 + 3) % 4);           // 0..3
                    b2[i] = (i % 2) ? 0.0 : 3.0;                           // many zeros
                    c3[i] = 0.1 * static_cast<double>(i + 1) * ((i % 3) ? 1 : -1);  // signs mixed
                }
                sources.push_back(a);
                sources.push_back(b2);
                sources.push_back(c3);
                scalar.insert(scalar.end(), { 0, 0, 0 });
            }
            const double eps = std::numeric_limits<double>::epsilon();
            for (std::size_t q = 0; q < sources.size(); ++q)
            {
                const auto& src = sources[q];
                arr_t src_arr = make_field(grid, src);
                arr_t acc1 = fg.accumulate(src_arr);
                arr_t acc2 = arr_t::from_shape(acc1.shape());
                acc2.fill(123.0);
                fg.accumulate(acc2, src_arr);
                ctx.rep.ops += 2;
                std::vector<double> acc(n);
                for (std::size_t i = 0; i < n; ++i)
                    acc[i] = acc1.flat(i);
                for (std::size_t i = 0; i < n; ++i)
                    if (std::memcmp(&acc[i], &acc2.flat(i), sizeof(double)) != 0)
                    {
                        f.push_back({ "overloads-disagree/array-in-place", "node " + node_s(i) });
                        break;
                    }
                if (scalar[q])
                {
                    arr_t acc3 = fg.accumulate(src[0]);
                    arr_t acc4 = arr_t::from_shape(acc1.shape());
                    acc4.fill(-7.0);
                    fg.accumulate(acc4, src[0]);
                    ctx.rep.ops += 2;
                    for (std::size_t i = 0; i < n; ++i)
                        if (std::memcmp(&acc[i], &acc3.flat(i), sizeof(double)) != 0
                            || std::memcmp(&acc[i], &acc4.flat(i), sizeof(double)) != 0)
                        {
                            f.push_back({ "overloads-disagree/scalar", "node " + node_s(i) });
                            break;
                        }
                }
                // local balance
                std::vector<long double> expect(n), mag(n);
                for (std::size_t i = 0; i < n; ++i)
                {
                    expect[i] = static_cast<long double>(src[i]) * area[i];
                    mag[i] = std::fabs(expect[i]);
                }
                for (std::size_t i = 0; i < n; ++i)
                    for (std::size_t k = 0; k < s.rcount[i]; ++k)
                        if (s.r(i, k) != i)
                        {
                            long double t = static_cast<long double>(acc[i]) * s.w(i, k);
                            expect[s.r(i, k)] += t;
                            mag[s.r(i, k)] += std::fabs(t);
                        }
                // "a non-negative source gives values no smaller than the local contribution":
                // judged when every local contribution src * area is non-negative (a strongly
                // obtuse mesh has nodes with a negative circumcentric area, C18; their
                // contribution is then negative although the source is not)
                bool nonneg = true;
                for (std::size_t i = 0; i < n; ++i)
                    if (src[i] < 0 || src[i] * area[i] < 0)
                        nonneg = false;
                long double total_src = 0, total_mag = 0, total_term = 0;
                for (std::size_t i = 0; i < n; ++i)
                {
                    total_src += static_cast<long double>(src[i]) * area[i];
                    total_mag += std::fabs(static_cast<long double>(src[i]) * area[i]);
                    if (s.rcount[i] == 1 && s.r(i, 0) == i)
                        total_term += acc[i];
                }
                for (std::size_t i = 0; i < n; ++i)
                {
                    if (!(std::fabs(static_cast<long double>(acc[i]) - expect[i]) <= 64 * eps * mag[i] + 1e-300L))
                    {
                        f.push_back({ "local-balance", "node " + node_s(i) + " accumulated " + hexd(acc[i])
                                                           + " expected " + hexd(static_cast<double>(expect[i])) });
                        break;
                    }
                    if (nonneg && !(acc[i] >= src[i] * area[i]))
                    {
                        f.push_back({ "below-local-contribution", "node " + node_s(i) });
                        break;
                    }
                }
                if (!(std::fabs(total_term - total_src) <= 1e-9L * (total_mag + 1e-300L) * static_cast<long double>(n)))
                    f.push_back({ "not-conserved", "sum over terminal nodes " + hexd(static_cast<double>(total_term))
                                                       + " source integral " + hexd(static_cast<double>(total_src)) });
                if (has_donor && q == 4)
                {
                    ++ctx.rep.nontrivial;
                    Hasher h;
                    h.seq(acc);
                    ctx.rep.digest(h.h);
                }
            }
        }
    };

    // ------------------------------------------------------------------ enumeration plan
    struct Deviation
    {
        bool has_mask = false;
        std::vector<int> mask;
        bool default_base = true;
        std::vector<std::size_t> base;
        int cost = 0;
    };

    std::vector<Deviation> deviations(const RefGeom& geo, int level)
    {
        std::vector<Deviation> out;
        std::size_t n = static_cast<std::size_t>(geo.n);
        bool has_default = false;
        for (int s : geo.status)
            if (s == FIXED_VALUE)
                has_default = true;
        auto mk_mask = [&](std::initializer_list<std::size_t> ids)
        {
            std::vector<int> m(n, 0);
            for (auto i : ids)
                m[i] = 1;
            return m;
        };
        if (level == 9)
        {
            // every mask x every non-empty base-level set (small grids only)
            for (u64 mb = 0; mb < (u64(1) << n); ++mb)
                for (u64 bb = 1; bb < (u64(1) << n); ++bb)
                {
                    Deviation d;
                    d.has_mask = true;
                    d.mask.assign(n, 0);
                    for (std::size_t i = 0; i < n; ++i)
                        d.mask[i] = (mb >> i) & 1;
                    d.default_base = false;
                    for (std::size_t i = 0; i < n; ++i)
                        if ((bb >> i) & 1)
                            d.base.push_back(i);
                    out.push_back(d);
                }
            return out;
        }
        if (has_default)
            out.push_back(Deviation{});
        if (level >= 1 || !has_default)
        {
            for (std::size_t b = 0; b < n; ++b)
            {
                Deviation d;
                d.default_base = false;
                d.base = { b };
                d.cost = 1;
                out.push_back(d);
            }
        }
        if (level >= 1)
        {
            if (has_default)
                for (std::size_t m = 0; m < n; ++m)
                {
                    Deviation d;
                    d.has_mask = true;
                    d.mask = mk_mask({ m });
                    d.cost = 1;
                    out.push_back(d);
                }
            {
                Deviation d;  // every node is a base level
                d.default_base = false;
                for (std::size_t i = 0; i < n; ++i)
                    d.base.push_back(i);
                d.cost = 1;
                out.push_back(d);
            }
        }
        if (level >= 2)
        {
            for (std::size_t a = 0; a < n; ++a)
                for (std::size_t b2 = a + 1; b2 < n; ++b2)
                {
                    if (has_default)
                    {
                        Deviation d;
                        d.has_mask = true;
                        d.mask = mk_mask({ a, b2 });
                        d.cost = 2;
                        out.push_back(d);
                    }
                    Deviation e;
                    e.default_base = false;
                    e.base = { a, b2 };
                    e.cost = 2;
                    out.push_back(e);
                }
            for (std::size_t m = 0; m < n; ++m)
                for (std::size_t b2 = 0; b2 < n; ++b2)
                {
                    Deviation d;  // includes m == b2: a masked base level
                    d.has_mask = true;
                    d.mask = mk_mask({ m });
                    d.default_base = false;
                    d.base = { b2 };
                    d.cost = 2;
                    out.push_back(d);
                }
        }
        return out;
    }

    struct PlanEntry
    {
        GridSpec g;
        int k = 3;                 // elevation levels
        std::vector<int> vmaps;    // value maps applied with no deviation
        int dev = 0;               // deviation level
        std::vector<int> vmaps_dev;  // value maps applied to deviated worlds
        u64 stride = 1;            // take every stride-th pattern (1 = exhaustive)
    };

    GridSpec raster_spec(int rc, int nr, int nc, const char* borders, double sr, double sc, bool cache)
    {
        GridSpec g;
        g.kind = RASTER;
        g.rc = rc;
        g.nr = nr;
        g.nc = nc;
        g.sr = sr;
        g.sc = sc;
        g.cache = cache;
        for (int i = 0; i < 4; ++i)
            g.b[i] = status_from_char(borders[i]);
        return g;
    }
    GridSpec profile_spec(int n, const char* borders, double sp, bool cache)
    {
        GridSpec g;
        g.kind = PROFILE;
        g.nr = 1;
        g.nc = n;
        g.sc = sp;
        g.cache = cache;
        g.b[0] = status_from_char(borders[0]);
        g.b[1] = status_from_char(borders[1]);
        return g;
    }
    GridSpec mesh_spec(const char* cells, int jitter, int vorder, int smode)
    {
        GridSpec g;
        g.kind = TRIMESH;
        for (int i = 0; i < 4; ++i)
            g.cells[i] = cells[i] - '0';
        g.jitter = jitter;
        g.vorder = vorder;
        g.smode = smode;
        g.cache = false;
        return g;
    }

    std::vector<PlanEntry> make_plan(const Args& a)
    {
        std::vector<PlanEntry> plan;
        const bool th = a.thorough();
        const std::vector<int> all_vm = { 0, 1, 2, 3, 4, 5 };
        auto add = [&](const GridSpec& g, int k, std::vector<int> vm, int dev, std::vector<int> vmd, u64 stride = 1)
        {
            if (!family_compiled(g.family()))
                return;
            if (!a.family.empty() && a.family != g.family())
                return;
            plan.push_back({ g, k, vm, dev, vmd, stride });
        };
        // ---- profile
        for (bool cache : { true, false })
        {
            for (int n = 2; n <= 4; ++n)
                add(profile_spec(n, "VV", 1.0, cache), 3, all_vm, 9, { 0, 2 });
            for (int n = 5; n <= 6; ++n)
                add(profile_spec(n, "VV", 1.0, cache), 3, all_vm, th ? 2 : 1, { 0, 2 });
            add(profile_spec(5, "VC", 2.5, cache), 3, { 0, 2 }, 1, { 0 });
            add(profile_spec(5, "CV", 1.0, cache), 3, { 0 }, 1, { 0 });
            add(profile_spec(5, "GV", 1.0, cache), 3, { 0 }, 0, {});
            add(profile_spec(5, "CC", 1.0, cache), 3, { 0, 2 }, 1, { 0, 2 });
            add(profile_spec(5, "LL", 2.5, cache), 3, { 0, 2 }, 1, { 0, 2 });
            add(profile_spec(2, "LL", 1.0, cache), 3, all_vm, 9, all_vm);
            if (th)
            {
                add(profile_spec(8, "VV", 1.0, cache), 3, all_vm, 1, { 0, 2 });
                add(profile_spec(8, "LL", 1.0, cache), 3, { 0, 2 }, 1, { 0 });
                add(profile_spec(16, "VC", 1.0, cache), 2, { 0, 2 }, 0, {});
            }
        }
        // ---- raster
        for (int rc : { ROOK, QUEEN, BISHOP })
        {
            for (bool cache : { true, false })
            {
                if (!cache && rc != QUEEN && !th)
                    continue;  // quick: the cache-less raster is exercised on the queen grid
                // primary configuration: full cross product
                add(raster_spec(rc, 3, 3, "VVVV", 1, 1, cache), 3, cache ? all_vm : std::vector<int>{ 0, 2 },
                    cache ? (th ? 2 : 1) : 0, { 0, 2 });
                if (!cache)
                    continue;
                add(raster_spec(rc, 2, 2, "VVVV", 1, 2, cache), 3, all_vm, 9, { 0, 2 });
                add(raster_spec(rc, 2, 2, "LLLL", 1, 1, cache), 3, { 0, 2 }, 9, { 0, 2 });
                add(raster_spec(rc, 2, 3, "VVVV", 1, 2, cache), 3, all_vm, th ? 2 : 1, { 0 });
                add(raster_spec(rc, 3, 2, "LLCC", 0.5, 3, cache), 3, { 0, 2 }, 1, { 0 });
                // border mixes (covering subset), anisotropic spacing
                add(raster_spec(rc, 3, 3, "CCCC", 1, 2, cache), 3, { 0 }, 1, { 0 }, th ? 1 : 3);
                add(raster_spec(rc, 3, 3, "LLVV", 1, 2, cache), 3, { 0, 2 }, th ? 1 : 0, { 0 });
                add(raster_spec(rc, 3, 3, "VCLL", 0.5, 3, cache), 3, { 0 }, th ? 1 : 0, { 0 });
                add(raster_spec(rc, 3, 3, "LLLL", 1, 1, cache), 3, { 0 }, 1, { 0 }, th ? 1 : 3);
                add(raster_spec(rc, 3, 3, "GVCG", 1, 1, cache), 3, { 0 }, 0, {});
                add(raster_spec(rc, 3, 3, "VCCC", 2, 1, cache), 3, { 0, 2 }, 0, {});
                if (th)
                {
                    add(raster_spec(rc, 3, 3, "VVVV", 1, 1, cache), 4, { 0, 2 }, 0, {});
                    add(raster_spec(rc, 3, 4, "VVVV", 1, 2, cache), 3, { 0, 2 }, 0, {});
                    add(raster_spec(rc, 4, 3, "LLVV", 1, 1, cache), 3, { 0 }, 0, {});
                    add(raster_spec(rc, 4, 4, "VVVV", 1, 1, cache), 2, all_vm, 1, { 0 });
                    add(raster_spec(rc, 4, 4, "CCCC", 1, 1, cache), 2, { 0 }, 1, { 0 });
                    add(raster_spec(rc, 2, 4, "LLLL", 1, 1, cache), 3, { 0 }, 1, { 0 });
                }
            }
        }
        // ---- triangular meshes (9 nodes)
        {
            const char* quick_meshes[] = { "1111", "2121", "1201", "3456" };
            const char* more_meshes[] = { "2222", "1221", "0110", "1011", "5630", "1234", "4321", "6543",
                                          "1010", "2020", "1122", "2211" };
            int qi = 0;
            for (auto m : quick_meshes)
            {
                add(mesh_spec(m, qi % 3, qi % 6, 0), 3, { 0, 2 }, qi == 0 ? 1 : 0, { 0 });
                add(mesh_spec(m, 0, 0, 1), 3, { 0 }, 0, {});
                ++qi;
            }
            add(mesh_spec("1111", 2, 3, 2), 3, { 0, 2 }, 1, { 0 });
            if (th)
            {
                int mi = 0;
                for (auto m : more_meshes)
                {
                    add(mesh_spec(m, mi % 4, mi % 6, 0), 3, { 0, 2 }, 1, { 0 });
                    add(mesh_spec(m, (mi + 1) % 4, (mi + 2) % 6, 2), 3, { 0 }, 0, {});
                    ++mi;
                }
                add(mesh_spec("1111", 3, 1, 0), 3, all_vm, 2, { 0 });
            }
        }
        return plan;
    }

    struct ProgramSet
    {
        std::vector<Program> progs;
        std::vector<double> ps;  // exponents (only for programs with a multi router)
    };

    ProgramSet programs_for(const std::string& prop, bool th)
    {
        ProgramSet s;
        auto P = [](const char* t) { return Program::parse(t); };
        std::vector<Program> resolvers = { P("pflood+single"),      P("single+mst:k:c"),      P("single+mst:k:b"),
                                           P("single+mst:b:c"),     P("single+mst:b:b"),      P("pflood+multi"),
                                           P("single+mst:k:c+multi"), P("single+mst:b:b+multi") };
        if (th)
        {
            resolvers.push_back(P("single+mst:k:b+multi"));
            resolvers.push_back(P("single+mst:b:c+multi"));
            resolvers.push_back(P("pflood+single+mst:k:c"));
        }
        s.ps = { 1.0 };
        if (prop == "C01" || prop == "C02")
            s.progs = resolvers;
        else if (prop == "C03")
        {
            s.progs = { P("single"), P("multi"), P("pflood+single"), P("single+mst:k:c"), P("single+mst:b:b"),
                        P("pflood+multi"), P("single+mst:k:b+multi") };
            s.ps = th ? std::vector<double>{ 0.0, 1.0, 2.0 } : std::vector<double>{ 1.0 };
        }
        else if (prop == "C04")
            s.progs = { P("single"), P("pflood+single") };
        else if (prop == "C05")
        {
            s.progs = { P("multi"), P("pflood+multi"), P("single+mst:k:c+multi") };
            if (th)
                s.progs.push_back(P("single+mst:b:b+multi"));
            s.ps = th ? std::vector<double>{ 0.0, 0.5, 1.0, 1.5, 2.0, 10.0 } : std::vector<double>{ 0.0, 1.0, 2.0 };
        }
        else if (prop == "C06")
        {
            s.progs = { P("single"), P("multi") };
            s.progs.insert(s.progs.end(), resolvers.begin(), resolvers.end());
        }
        else if (prop == "C19")
            s.progs = { P("single"),          P("pflood+single"),  P("single+mst:k:c"),
                        P("single+mst:k:b"), P("single+mst:b:c"), P("single+mst:b:b"), P("single+gsnap1+mst:k:c") };
        return s;
    }

    template <class G>
    void run_entry(Ctx& ctx, G& grid, const PlanEntry& e, const RefGeom& geo, const ProgramSet& ps)
    {
        Runner<G> runner{ ctx, grid, e.g, geo, ctx.args.property };
        std::size_t n = static_cast<std::size_t>(geo.n);
        auto devs = deviations(geo, e.dev);
        std::vector<int> pat(n, 0);
        u64 pidx = 0;
        const auto& vms = value_maps();
        bool sampled = false;
        do
        {
            u64 this_idx = pidx++;
            if (e.stride > 1 && (this_idx % e.stride) != 0)
                continue;
            for (std::size_t di = 0; di < devs.size(); ++di)
            {
                const auto& d = devs[di];
                if (!ctx.mine())
                    continue;
                if ((ctx.rep.worlds & 0x3ff) == 0 && ctx.out_of_time())
                    return;
                ++ctx.rep.worlds;
                const auto& vmset = d.cost == 0 ? e.vmaps : e.vmaps_dev;
                for (int vm : vmset)
                {
                    FlowCase c;
                    c.elev.resize(n);
                    c.elev2.resize(n);
                    for (std::size_t i = 0; i < n; ++i)
                    {
                        c.elev[i] = vms[static_cast<std::size_t>(vm)][static_cast<std::size_t>(pat[i])];
                        // second field: the pattern read backwards and rotated by one level
                        c.elev2[i] = vms[static_cast<std::size_t>(vm)][static_cast<std::size_t>((pat[n - 1 - i] + 1) % e.k)];
                    }
                    c.has_mask = d.has_mask;
                    c.mask = d.mask;
                    c.default_base = d.default_base;
                    c.base = d.base;
                    c.pat = digits(pat);
                    c.vm = vm;
                    for (const auto& prog : ps.progs)
                    {
                        c.prog = prog;
                        bool multi = prog.has("multi");
                        std::size_t np = multi ? ps.ps.size() : 1;
                        for (std::size_t pi = 0; pi < np; ++pi)
                        {
                            c.p = multi ? ps.ps[pi] : 1.0;
                            c.p2 = multi ? ps.ps[(pi + 1) % ps.ps.size()] : 1.0;
                            alarm(20);
                            ctx.world_fn = [&]() { return world_str(e.g, c); };
                            runner.run(c);
                            alarm(0);
                            if (!sampled && ctx.shard == 0)
                            {
                                ctx.rep.sample(world_str(e.g, c));
                                sampled = true;
                            }
                        }
                    }
                }
            }
        } while (next_pattern(pat, e.k));
    }
}

namespace
{
    // C08 only: the multi-threaded router and the multi-threaded kernel dispatcher with real
    // threads (thread counts growing and shrinking between calls on one graph) under the
    // sanitizers.  Results are not judged here (C10 does that under the controlled scheduler).
    template <class G>
    void c08_threaded_on(Ctx& ctx, G& grid, const GridSpec& gs)
    {
        std::string w = "g=" + gs.str() + ";threaded=1";
        ctx.world_fn = [w]() { return w; };
        ctx.current_stage = "threaded-router-and-kernels";
        alarm(60);
        std::size_t n = static_cast<std::size_t>(gs.size());
        std::vector<double> f0(n), f1(n);
        for (std::size_t i = 0; i < n; ++i)
        {
            f0[i] = static_cast<double>((i * 5 + 2) % 4);
            f1[i] = static_cast<double>(n - i) * 0.5;
        }
        Built<G> b = build_graph(grid, Program::parse("single2"));
        auto& fg = *b.fg;
        for (int t : { 2, 3, 2, 4 })
        {
            b.singles[0]->m_threads_count = t;
            auto fld = make_field(grid, (t % 2) ? f1 : f0);
            fg.update_routes(fld);
            ++ctx.rep.ops;
        }
        struct K
        {
            int t, mb, ml;
            fs::flow_graph_traversal_dir dir;
        };
        for (K k : { K{ 2, 1, 1, fs::flow_graph_traversal_dir::breadth_upstream }, K{ 4, 1, 1, fs::flow_graph_traversal_dir::breadth_upstream },
                     K{ 3, 2, 2, fs::flow_graph_traversal_dir::breadth_upstream }, K{ 2, 100, 1, fs::flow_graph_traversal_dir::breadth_upstream },
                     K{ 5, 1, 100, fs::flow_graph_traversal_dir::breadth_upstream } })
        {
            (void) run_depth_kernel(fg, k.dir, k.t, k.mb, k.ml);
            ++ctx.rep.ops;
        }
        b.singles[0]->m_threads_count = 3;
        auto fld = make_field(grid, f0);
        fg.update_routes(fld);
        alarm(0);
        ++ctx.rep.evaluations;
        ++ctx.rep.worlds;
        ctx.rep.hit("threaded-scenarios");
    }

    void c08_threaded(Ctx& ctx, const std::string& only = "")
    {
        std::vector<GridSpec> specs = { raster_spec(QUEEN, 3, 3, "VCVC", 1, 1, true), raster_spec(QUEEN, 3, 4, "LLVC", 1, 2, false),
                                        raster_spec(ROOK, 3, 3, "VCCC", 1, 1, true), profile_spec(7, "VC", 1.0, true),
                                        profile_spec(7, "VC", 1.0, false), mesh_spec("1111", 1, 0, 2) };
        for (auto& g : specs)
        {
            if (!only.empty() && g.str() != only)
                continue;
            with_grid(g, [&](auto& grid) { c08_threaded_on(ctx, grid, g); });
        }
    }
}

int main(int argc, char** argv)
{
    return sse_main(argc, argv, { "C01", "C02", "C03", "C04", "C05", "C06", "C19" },
                       [&](Ctx& ctx)
                       {
                           const Args& a = ctx.args;
                           ProgramSet ps = programs_for(a.property, a.thorough());
                           if (ps.progs.empty())
                           {
                               std::fprintf(stderr, "flow harness does not serve %s\n", a.property.c_str());
                               std::_Exit(2);
                           }
                           if (c08_mode() && ctx.replay_mode && parse_kv(a.replay).count("threaded"))
                           {
                               c08_threaded(ctx, parse_kv(a.replay)["g"]);
                               return;
                           }
                           if (c08_mode() && !ctx.replay_mode && a.property == "C01" && ctx.shard == 0)
                               c08_threaded(ctx);
                           if (ctx.replay_mode)
                           {
                               GridSpec g;
                               FlowCase c;
                               if (!parse_world(a.replay, g, c))
                               {
                                   std::fprintf(stderr, "cannot parse world\n");
                                   std::_Exit(2);
                               }
                               RefGeom geo = ref_geometry(g);
                               bool ok = with_grid(g,
                                                   [&](auto& grid)
                                                   {
                                                       using G = std::decay_t<decltype(grid)>;
                                                       Runner<G> r{ ctx, grid, g, geo, a.property };
                                                       ++ctx.rep.worlds;
                                                       r.run(c);
                                                   });
                               if (!ok)
                                   ctx.rep.bounds["replay"] = "family-not-in-this-binary";
                               return;
                           }
                           auto plan = make_plan(a);
                           ctx.rep.bounds["plan_entries"] = std::to_string(plan.size());
                           for (const auto& e : plan)
                           {
                               RefGeom geo = ref_geometry(e.g);
                               with_grid(e.g,
                                         [&](auto& grid)
                                         {
                                             using G = std::decay_t<decltype(grid)>;
                                             run_entry<G>(ctx, grid, e, geo, ps);
                                         });
                               if (ctx.rep.deadline_hit)
                                   break;
                           }
                       });
}
